"""Check flows for C11 (close/open) and C12 (eviction, failed writes)."""
import glob
import json
import os
from . import common as C
from . import corpora
from . import tracecheck as T
from . import multijudge as J
from . import persistjudge as P


def _common_start(pid):
    prep = C.prepare()
    pf = C.check_property_file(pid)
    bad = C.forbidden_vernacular()
    return prep, pf, bad


def _fill_cov(out, pid, pf, bad):
    cov = out.coverage
    cov["obligations"] = pf["obligations"] + 1
    cov["discharged"] = pf["discharged"] + (0 if bad else 1)
    cov["checker_cmd"] = "make -C coq && coqc -Q . Nodis Properties/%s.v" % pid
    cov["theorems"] = pf["theorems"]
    cov["axioms"] = pf["axioms"]
    cov["closed_under_global_context"] = pf["closed_under_global_context"]
    return cov


def _report(out, pid, r, verdicts, known, confirmed, pf, model_verdicts_fn=None):
    """classification shared with the other trace checks.
    model_verdicts_fn(path of a model trace) -> verdicts: when given, a listed deviation that shows up AFTER the
    implementation has left the model is compared with what the model of the unchanged code does on the same history
    (mrun modeltrace: the model runs the script on its own): only a deviation the unchanged code shows too is skipped,
    any other is reported with the history as the failing input."""
    attributable, seen = set(), set()
    model_set = [None]

    def in_model(v):
        if model_verdicts_fn is None:
            return True
        if model_set[0] is None:
            mt = r.tracefile + ".model"
            rc, mo = C.sh([C.MRUN, "modeltrace", r.tracefile], timeout=1800)
            with open(mt, "w") as f:
                f.write(mo)
            try:
                model_set[0] = set((m["case"], m["step"], m["signature"], m["text"]) for m in model_verdicts_fn(mt))
            except Exception as e:       # a model trace that cannot be judged proves nothing either way
                model_set[0] = set()
                print("note: model trace could not be judged: %r" % (e,))
        return (v["case"], v["step"], v["signature"], v["text"]) in model_set[0]
    # a command that never replied: classified from its shape, never as a correspondence break
    for sv in T.stalls(r):
        attributable.add(sv["case"])
        if sv["signature"] in known:
            confirmed.setdefault(sv["signature"], sv)
        elif sv["signature"] not in seen:
            seen.add(sv["signature"])
            out.violation(T.replay_of(pid, r, dict(sv, reason="a command never replied")))
        verdicts = [v for v in verdicts if v["case"] != sv["case"] or v["step"] < sv["step"]]
    for v in verdicts:
        md = r.mdiffs.get(v["case"])
        before = md is None or v["step"] < md[0]
        if before and v["signature"] in known:
            confirmed.setdefault(v["signature"], v)
            continue
        if not before and v["signature"] in known and v["step"] != md[0] and in_model(v):
            continue
        attributable.add(v["case"])
        if v["signature"] in seen:
            continue
        seen.add(v["signature"])
        v["reason"] = "the property is violated on this history (the implementation agrees with the model up to here)" if before else "implementation left the model and violates the property"
        out.violation(T.replay_of(pid, r, v))
    n = 0
    for case, (step, kind, detail) in r.mdiffs.items():
        if case in attributable or n >= 2:
            continue
        n += 1
        out.violation(T.replay_of(pid, r, {"case": case, "step": step, "detail": detail},
                                  {"broken": "correspondence storage model/implementation (coq/Model/Db.v vs store.go, tx.go, storage/*)",
                                   "theorems_no_longer_about_the_code": pf["theorems"]}), nofail=not seen)


def run_c11(tier, seed, replay):
    pid = "C11"
    out = C.Outcome(pid, tier, seed)
    prep, pf, bad = _common_start(pid)
    cov = _fill_cov(out, pid, pf, bad)
    out.assumptions = [
        "Pebble is modelled as an ordered map from encoded key to bytes whose decode(encode v) = v (theorems of C14, tied by the byte-level dump comparison of every stored entry); the in-memory backend keeps Go object references (heap model)",
        "before and after every close/open the harness loads every key (PROBE) so that the complete logical keyspace is compared: same live keys, same type and value, same deadline",
        "datasets larger than the backend cache and members around 8 KiB are exercised by C14's sweeps, not here",
    ]
    if not pf["ok"] or bad:
        out.violation({"property": pid, "broken": "proof", "detail": pf["log"][-1500:], "forbidden": bad}, nofail=True)
    if not prep.ok and prep.failed_stage in ("go-build-harness", "ocaml-build", "coq_makefile"):
        out.violation({"property": pid, "broken": prep.failed_stage, "detail": prep.log[-3000:]}, nofail=True)
        return out.finish()
    known = {f["key"]: f for f in C.findings_for(pid) if "key" in f}
    d = C.scratch_dir("c11")
    stats = {"cases": 0, "steps_vs_model": 0, "model_diffs": 0, "reopen_cycles": 0}
    confirmed, dist, samples, distinct = {}, {}, [], set()
    try:
        batches = []
        if replay:
            rp = json.load(open(replay))
            script = os.path.join(d, "replay.script")
            T.write_script(script, [("replay", rp.get("backend", "peb"), rp["script"])])
            batches.append(("replay", dict(script=script)))
        else:
            corpus = sorted(glob.glob(os.path.join(C.VERIF, "corpus", pid, "*.script")))
            if corpus:
                script = os.path.join(d, "corpus.script")
                with open(script, "w") as f:
                    for cf in corpus:
                        f.write(open(cf).read() + "\n")
                batches.append(("corpus", dict(script=script)))
            gscript = os.path.join(d, "directed.script")
            if corpora.write_for(pid, tier, gscript):
                batches.append(("directed", dict(script=gscript)))
            k = 15 if tier == "thorough" else 1
            batches.append(("reopen-peb", dict(profile="reopen", cases=30 * k, length=40, backend="peb", seed=seed * 1000 + 31)))
            batches.append(("reopen-mem", dict(profile="reopen", cases=30 * k, length=40, backend="mem", seed=seed * 1000 + 32)))
        for tag, kw in batches:
            r = T.TraceRun(d, tag).run(**kw)
            if not r.ok:
                out.violation({"property": pid, "broken": "run " + tag, "detail": r.err}, nofail=True)
                continue
            stats["cases"] += r.msum[0]
            stats["steps_vs_model"] += r.msum[1]
            stats["model_diffs"] += r.msum[3]
            cases = J.parse_trace(r.tracefile)
            times = P.parse_times(r.tracefile)
            verdicts = []
            for c in cases:
                for s in c["steps"]:
                    dist[s["name"]] = dist.get(s["name"], 0) + 1
                    if s["x"] == "REOPEN":
                        stats["reopen_cycles"] += 1
                        distinct.add((c["id"], len(distinct)))
                verdicts += P.judge_reopen(c, times[c["id"]])
            if len(samples) < 2 and cases:
                samples.append([T.step_text(s["line"]) for s in cases[0]["steps"][:14]])
            def model_verdicts(path):
                mv = []
                mtimes = P.parse_times(path)
                for mc in J.parse_trace(path):
                    mv += P.judge_reopen(mc, mtimes[mc["id"]])
                return mv
            _report(out, pid, r, verdicts, known, confirmed, pf, model_verdicts_fn=model_verdicts)
        for sig in sorted(confirmed):
            out.known_confirmed.append(known[sig])
        cov["evaluations"] = stats["steps_vs_model"]
        cov["distinct_nontrivial"] = stats["reopen_cycles"]
        cov["rule"] = ("evaluations = steps compared with the storage model (reply, index, storage entries); distinct = close/open cycles, each on a different "
                       "history of all data types with deletes, renames, TTL changes, SAVE and eviction passes, bracketed by probes that load every key")
        cov["samples"] = samples
        cov["traces_validated_against_impl"] = stats["cases"]
        cov["input_distribution"] = dict(sorted(dist.items(), key=lambda kv: -kv[1])[:40])
        cov["stats"] = stats
        cov["exhaustive"] = False
    finally:
        C.sh(["rm", "-rf", d])
    return out.finish()


def strip_script(steps, drop):
    return [s for s in steps if not (s.startswith("X ") and s.split()[1] in drop)]


def run_c12(tier, seed, replay):
    pid = "C12"
    out = C.Outcome(pid, tier, seed)
    prep, pf, bad = _common_start(pid)
    cov = _fill_cov(out, pid, pf, bad)
    out.assumptions = [
        "eviction passes are triggered through the VerifGC/VerifFlush hooks at arbitrary points between commands (never concurrently with a command: schedules are C05/C06's)",
        "invisibility is judged by running every history twice, with and without the passes, and comparing every reply and the final loaded keyspace",
        "backend write failures are injected by a wrapper around storage.Storage that lives in the harness",
        "the scan-with-delete quirk of a pass is modelled for an index that fits one btree leaf (at most 200 keys)",
    ]
    if not pf["ok"] or bad:
        out.violation({"property": pid, "broken": "proof", "detail": pf["log"][-1500:], "forbidden": bad}, nofail=True)
    if not prep.ok and prep.failed_stage in ("go-build-harness", "ocaml-build", "coq_makefile"):
        out.violation({"property": pid, "broken": prep.failed_stage, "detail": prep.log[-3000:]}, nofail=True)
        return out.finish()
    known = {f["key"]: f for f in C.findings_for(pid) if "key" in f}
    d = C.scratch_dir("c12")
    stats = {"cases": 0, "steps_vs_model": 0, "model_diffs": 0, "pairs_compared": 0, "passes": 0, "faults": 0}
    confirmed, dist, samples = {}, {}, []
    try:
        batches = []
        if replay:
            rp = json.load(open(replay))
            script = os.path.join(d, "replay.script")
            T.write_script(script, [("replay", rp.get("backend", "peb"), rp["script"])])
            batches.append(("replay", dict(script=script), ("GC", "FLUSH", "FAULTS")))
        else:
            k = 15 if tier == "thorough" else 1
            gscript = os.path.join(d, "directed.script")
            if corpora.write_for(pid, tier, gscript):
                batches.append(("directed", dict(script=gscript), ("GC", "FLUSH")))
            batches.append(("evict-peb", dict(profile="evict", cases=24 * k, length=40, backend="peb", seed=seed * 1000 + 41), ("GC", "FLUSH")))
            batches.append(("evict-mem", dict(profile="evict", cases=24 * k, length=40, backend="mem", seed=seed * 1000 + 42), ("GC", "FLUSH")))
            batches.append(("faults-peb", dict(profile="faults", cases=16 * k, length=40, backend="peb", seed=seed * 1000 + 43), ("GC", "FLUSH", "FAULTS")))
            batches.append(("faults-mem", dict(profile="faults", cases=10 * k, length=40, backend="mem", seed=seed * 1000 + 44), ("GC", "FLUSH", "FAULTS")))
        for tag, kw, drop in batches:
            r = T.TraceRun(d, tag).run(**kw)
            if not r.ok:
                out.violation({"property": pid, "broken": "run " + tag, "detail": r.err}, nofail=True)
                continue
            stats["cases"] += r.msum[0]
            stats["steps_vs_model"] += r.msum[1]
            stats["model_diffs"] += r.msum[3]
            # the same histories without the passes / faults
            script = os.path.join(d, tag + ".plain.script")
            T.write_script(script, [(cid, r.cases[cid]["backend"], strip_script(r.cases[cid]["steps"], drop)) for cid in r.order])
            plain = os.path.join(d, tag + ".plain.trace")
            rc, log = T.run_vh_trace(plain, script=script)
            if rc != 0:
                out.violation({"property": pid, "broken": "plain run " + tag, "detail": log[-2000:]}, nofail=True)
                continue
            withc = {c["id"]: c for c in J.parse_trace(r.tracefile)}
            without = {c["id"]: c for c in J.parse_trace(plain)}
            verdicts = []
            for cid in r.order:
                for s in withc[cid]["steps"]:
                    dist[s["name"]] = dist.get(s["name"], 0) + 1
                    if s["x"] in ("GC", "FLUSH"):
                        stats["passes"] += 1
                    if s["x"] == "FAULTS":
                        stats["faults"] += 1
                if cid in r.munm:
                    # outside the model from that step on.  The pair comparison needs no model (implementation with passes
                    # against implementation without), but it needs deterministic commands: only GEOADD is let through
                    names = set(s["name"] for s in withc[cid]["steps"] if s["conn"] >= 0)
                    if not (names & {"GEOADD"}) or names & {"SPOP", "SRANDMEMBER", "RANDOMKEY"}:
                        continue
                stats["pairs_compared"] += 1
                vs = P.compare_runs(withc[cid], without[cid])
                if tag.startswith("faults"):
                    for v in vs:
                        v["signature"] = "FAULT/lost-after-failed-write"
                verdicts += vs
            if len(samples) < 2 and r.order:
                samples.append([T.step_text(s) for s in r.cases[r.order[0]]["steps"][:14]])
            _report(out, pid, r, verdicts, known, confirmed, pf)
        for sig in sorted(confirmed):
            out.known_confirmed.append(known[sig])
        cov["evaluations"] = stats["steps_vs_model"]
        cov["distinct_nontrivial"] = stats["pairs_compared"]
        cov["rule"] = ("evaluations = steps compared with the storage model; distinct = histories run twice (with and without eviction passes / injected "
                       "write failures) whose replies and final loaded keyspace were compared")
        cov["samples"] = samples
        cov["traces_validated_against_impl"] = stats["cases"]
        cov["input_distribution"] = dict(sorted(dist.items(), key=lambda kv: -kv[1])[:40])
        cov["stats"] = stats
        cov["exhaustive"] = False
    finally:
        C.sh(["rm", "-rf", d])
    return out.finish()
