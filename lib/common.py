"""Shared machinery of the nodis verification checks (see DESIGN.md section 2)."""
import fcntl
import hashlib
import json
import os
import re
import subprocess
import sys
import time

VERIF = os.path.dirname(os.path.dirname(os.path.abspath(__file__)))
REPO = os.environ.get("VERIF_REPO", "/repo")
CACHE = os.path.join(VERIF, ".cache")
COQ = os.path.join(VERIF, "coq")
BIN = os.path.join(CACHE, "bin")
OCAML_OUT = os.path.join(CACHE, "ocaml")
VH = os.path.join(BIN, "vh")
VTRANS = os.path.join(BIN, "vtrans")
MRUN = os.path.join(OCAML_OUT, "mrun")

TRUSTED_BASE = [
    "Coq 8.16.1 kernel (coqc); vm_compute in witness/side-condition evaluation; no native_compute",
    "axioms: none declared; every property theorem prints 'Closed under the global context' unless listed in coverage.axioms",
    "extraction: Require ExtrOcamlBasic only (Extract Inductive bool/option/unit/list/prod/sumbool/sumor, Extract Inlined Constant andb/orb); no directive of our own",
    "ocaml/driver.ml (token parsing, int/string <-> Coq datatype conversion incl. byte = immediate constructor index, self-tested at start-up)",
    "harness/ (Go): generators, canonicaliser, runners; hooks in /repo behind build tag verif",
    "translator/ (Go, go/ast): meaning given to the Go statements it pattern-matches; fails closed",
    "hand-written Gallina models in coq/Model are tied to the code only by the correspondence run of this check",
]


def go_env():
    e = dict(os.environ)
    e.update({
        "GOFLAGS": "-mod=mod", "GOPROXY": "off", "GOSUMDB": "off", "GOTOOLCHAIN": "local",
        "GOCACHE": os.path.join(CACHE, "go"), "CGO_ENABLED": "1",
    })
    return e


def sh(cmd, cwd=None, env=None, timeout=1800, inp=None):
    """run a command, return (exit, stdout+stderr)"""
    try:
        p = subprocess.run(cmd, cwd=cwd, env=env, timeout=timeout, input=inp,
                           stdout=subprocess.PIPE, stderr=subprocess.STDOUT, text=True,
                           shell=isinstance(cmd, str))
        return p.returncode, p.stdout
    except subprocess.TimeoutExpired as ex:
        out = ex.stdout if isinstance(ex.stdout, str) else (ex.stdout or b"").decode("utf8", "replace")
        return 124, (out or "") + "\n[timeout after %ss]" % timeout


class Lock:
    def __enter__(self):
        os.makedirs(CACHE, exist_ok=True)
        self.f = open(os.path.join(CACHE, "lock"), "w")
        fcntl.flock(self.f, fcntl.LOCK_EX)
        return self

    def __exit__(self, *a):
        fcntl.flock(self.f, fcntl.LOCK_UN)
        self.f.close()


def tree_hash(paths, exts=None):
    h = hashlib.sha1()
    for root in paths:
        if os.path.isfile(root):
            files = [root]
        else:
            files = []
            for d, dn, fn in os.walk(root):
                dn[:] = sorted(x for x in dn if not x.startswith("."))
                for f in sorted(fn):
                    if exts is None or os.path.splitext(f)[1] in exts:
                        files.append(os.path.join(d, f))
        for f in files:
            h.update(f.encode())
            with open(f, "rb") as fh:
                h.update(fh.read())
    return h.hexdigest()


def write_if_changed(path, content):
    try:
        with open(path) as f:
            if f.read() == content:
                return False
    except FileNotFoundError:
        pass
    os.makedirs(os.path.dirname(path), exist_ok=True)
    with open(path, "w") as f:
        f.write(content)
    return True


def read_stamp(name):
    try:
        return open(os.path.join(CACHE, name + ".stamp")).read().strip()
    except FileNotFoundError:
        return ""


def write_stamp(name, v):
    with open(os.path.join(CACHE, name + ".stamp"), "w") as f:
        f.write(v)


class Prep:
    """result of prepare(): which stages built, and their logs"""
    def __init__(self):
        self.ok = True
        self.failed_stage = None
        self.log = ""
        self.coq_failed_file = None
        self.translator_ok = True
        self.translator_log = ""


def prepare(need_coq=True, need_ocaml=True, need_go=True, need_translator=True):
    """(re)build everything the checks need from /repo's current working tree."""
    p = Prep()
    os.makedirs(BIN, exist_ok=True)
    with Lock():
        env = go_env()
        if need_go:
            rc, out = sh(["go", "build", "-tags", "verif", "-o", VH, "./cmd/vh"],
                         cwd=os.path.join(VERIF, "harness"), env=env, timeout=1500)
            if rc != 0:
                p.ok, p.failed_stage, p.log = False, "go-build-harness", out
                return p
        if need_translator and os.path.isdir(os.path.join(VERIF, "translator")) and \
                os.path.exists(os.path.join(VERIF, "translator", "main.go")):
            rc, out = sh(["go", "build", "-o", VTRANS, "."], cwd=os.path.join(VERIF, "translator"), env=env, timeout=600)
            if rc != 0:
                p.ok, p.failed_stage, p.log = False, "go-build-translator", out
                return p
            rc, out = sh([VTRANS, "-repo", REPO, "-out", os.path.join(COQ, "Gen")], env=env, timeout=300)
            p.translator_log = out
            if rc != 0:
                # fail closed: the generated obligations are broken; Coq build of Gen dependants will fail
                p.translator_ok = False
        if need_coq:
            if not os.path.exists(os.path.join(COQ, "Makefile")) or \
                    os.path.getmtime(os.path.join(COQ, "Makefile")) < os.path.getmtime(os.path.join(COQ, "_CoqProject")):
                rc, out = sh("coq_makefile -f _CoqProject -o Makefile", cwd=COQ)
                if rc != 0:
                    p.ok, p.failed_stage, p.log = False, "coq_makefile", out
                    return p
            rc, out = sh("timeout 3000 make -j16 -k 2>&1", cwd=COQ, timeout=3100)
            p.coq_log = out
            if rc != 0:
                m = re.search(r'File "\./([^"]+)", line', out)
                p.coq_failed_file = m.group(1) if m else "?"
                p.ok, p.failed_stage, p.log = False, "coq-make", out[-6000:]
                # keep going: unaffected properties can still be checked
        if need_ocaml:
            hh = tree_hash([os.path.join(COQ, "Base"), os.path.join(COQ, "Model"), os.path.join(COQ, "Spec"),
                            os.path.join(COQ, "Gen"), os.path.join(COQ, "Extract.v"),
                            os.path.join(VERIF, "ocaml", "driver.ml"), os.path.join(VERIF, "ocaml", "build.sh")],
                           exts={".v", ".ml", ".sh"})
            if read_stamp("ocaml") != hh or not os.path.exists(MRUN):
                rc, out = sh([os.path.join(VERIF, "ocaml", "build.sh"), OCAML_OUT], timeout=1200)
                if rc != 0:
                    if p.ok:
                        p.ok, p.failed_stage, p.log = False, "ocaml-build", out[-6000:]
                    return p
                write_stamp("ocaml", hh)
    return p


def check_property_file(pid):
    """Recompile coq/Properties/<pid>.v and count the theorems the kernel accepted.
    returns dict(ok, obligations, discharged, axioms, theorems, log)"""
    path = os.path.join(COQ, "Properties", pid + ".v")
    src = open(path).read()
    theorems = re.findall(r'^\s*(?:Theorem|Example|Corollary)\s+([A-Za-z0-9_\']+)', src, re.M)
    rc, out = sh(["coqc", "-Q", ".", "Nodis", "-w", "-deprecated-hint-without-locality,-deprecated-instance-without-locality",
                  "Properties/%s.v" % pid], cwd=COQ, timeout=1500)
    closed = len(re.findall(r'Closed under the global context', out))
    axioms = []
    for m in re.finditer(r'Axioms:\n((?:.+\n)+)', out):
        axioms.append(m.group(1).strip())
    printed = closed + len(axioms)
    return {
        "ok": rc == 0,
        "obligations": len(theorems),
        "discharged": len(theorems) if rc == 0 else 0,
        "print_assumptions_blocks": printed,
        "closed_under_global_context": closed,
        "axioms": axioms,
        "theorems": theorems,
        "log": out[-4000:],
    }


def forbidden_vernacular():
    """grep the development for anything that would weaken the kernel check"""
    bad = []
    pat = re.compile(r'\b(Admitted|admit|Axiom|Axioms|Parameter|Parameters|Conjecture|Unset Guard|bypass_check|'
                     r'Admit Obligations|type-in-type|impredicative-set)\b')
    for d, dn, fn in os.walk(COQ):
        if "extract" in d:
            continue
        for f in fn:
            if f.endswith(".v"):
                for i, line in enumerate(open(os.path.join(d, f)), 1):
                    s = re.sub(r'\(\*.*?\*\)', '', line)
                    if pat.search(s):
                        bad.append("%s:%d: %s" % (os.path.relpath(os.path.join(d, f), COQ), i, line.strip()))
    return bad


# ---- known findings ---------------------------------------------------------
def load_findings():
    out = {"finding": [], "fixed": []}
    path = os.path.join(VERIF, "known_findings.txt")
    if not os.path.exists(path):
        return out
    for line in open(path):
        line = line.strip()
        if not line or line.startswith("#"):
            continue
        m = re.match(r'(finding|fixed):\s+property=(\S+)\s+(.*)', line)
        if not m:
            continue
        kind, pid, rest = m.groups()
        ent = {"property": pid, "text": rest}
        km = re.match(r'key=(\S+)\s+(.*)', rest)
        if km:
            ent["key"], ent["text"] = km.group(1), km.group(2)
        out[kind].append(ent)
    return out


def findings_for(pid):
    """the findings listed for pid, plus the hangs listed under C06 (key STALL/...): a command that never
    replies ends the case in every trace-based check, whatever property the check is about"""
    fs = load_findings()["finding"]
    own = [f for f in fs if f["property"] == pid]
    have = set(f.get("key") for f in own)
    shared = [f for f in fs if f["property"] == "C06" and str(f.get("key", "")).startswith("STALL/") and f.get("key") not in have]
    return own + (shared if pid != "C06" else [])


# ---- reporting ----------------------------------------------------------------
class Outcome:
    def __init__(self, pid, tier, seed):
        self.pid, self.tier, self.seed = pid, tier, seed
        self.t0 = time.time()
        self.violations = []      # list of (replay dict, nofail bool)
        self.known_confirmed = []  # list of finding dicts re-confirmed this run
        self.coverage = {}
        self.assumptions = []

    def violation(self, replay, nofail=False):
        self.violations.append((replay, nofail))

    def finish(self):
        wall = time.time() - self.t0
        cov = dict(self.coverage)
        cov.setdefault("trusted_base", TRUSTED_BASE)
        ev = {
            "property_id": self.pid, "tier": self.tier, "seed": self.seed, "level": "proof",
            "coverage": cov, "assumptions": self.assumptions, "wall_s": round(wall, 2),
            "violations": len(self.violations),
        }
        os.makedirs(os.path.join(VERIF, "evidence"), exist_ok=True)
        with open(os.path.join(VERIF, "evidence", self.pid + ".json"), "w") as f:
            json.dump(ev, f, indent=1, sort_keys=True)
            f.write("\n")
        for fd in self.known_confirmed:
            print("KNOWN-FINDING: property=%s %s%s" % (self.pid, ("key=%s " % fd["key"]) if "key" in fd else "", fd["text"]))
        if not self.violations:
            print("OK property=%s tier=%s wall=%.1fs" % (self.pid, self.tier, wall))
            return 0
        seen = set()
        for replay, nofail in self.violations:
            body = json.dumps(replay, sort_keys=True, indent=1)
            hsh = hashlib.sha1(body.encode()).hexdigest()[:16]
            if hsh in seen:
                continue
            seen.add(hsh)
            d = os.path.join(VERIF, "replays", self.pid)
            os.makedirs(d, exist_ok=True)
            path = os.path.join(d, hsh + ".json")
            with open(path, "w") as f:
                f.write(body + "\n")
            print("VIOLATION property=%s replay=%s%s" % (self.pid, path, " no-failing-input-found" if nofail else ""))
        return 1


def tier_and_seed(argv):
    tier = os.environ.get("VERIF_TIER", "quick")
    replay = None
    i = 0
    while i < len(argv):
        if argv[i] == "--tier":
            tier = argv[i + 1]; i += 2
        elif argv[i] == "--replay":
            replay = argv[i + 1]; i += 2
        else:
            i += 1
    if tier not in ("quick", "thorough"):
        tier = "quick"
    try:
        seed = int(os.environ.get("VERIF_SEED", "1"))
    except ValueError:
        seed = 1
    return tier, seed, replay


def scratch_dir(tag):
    d = os.path.join("/tmp", "nodis-verif-%s-%d" % (tag, os.getpid()))
    os.makedirs(d, exist_ok=True)
    return d
