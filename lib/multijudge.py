"""Specification judge for MULTI/EXEC/WATCH (C08, C09) over implementation traces.

Per connection it tracks the transaction state the Redis documentation prescribes and
checks every reply; for WATCH it compares the abstract content (value, deadline) of each
watched key at WATCH time with its content just before EXEC:
  changed                                   -> EXEC must reply null and change nothing
  no command named the key in the window    -> EXEC must run (array of one reply per queued command)
"""
import re


def parse_trace(path):
    """-> list of cases: dict(id, backend, steps=[dict(line, conn, name, args, reply, dump{key: valuetokens})])"""
    cases = []
    cur = None
    step = None
    with open(path, errors="replace") as f:
        for line in f:
            line = line.rstrip("\n")
            if line.startswith("CASE "):
                t = line.split()
                cur = {"id": t[1], "backend": t[2], "steps": []}
                cases.append(cur)
            elif cur is not None and (line.startswith("OP ") or line.startswith("X ")):
                lhs, _, rhs = line.partition(" => ")
                t = lhs.split()
                if t[0] == "OP":
                    n = int(t[3])
                    step = {"line": " ".join(t[:-2]), "conn": int(t[1]), "name": t[2], "args": t[4:4 + n] if n else [],
                            "reply": rhs.split(), "dump": {}, "x": None, "t0": int(t[-2]), "t1": int(t[-1])}
                else:
                    step = {"line": " ".join(t[:-2]), "conn": -1, "name": "X:" + t[1], "args": [], "reply": rhs.split(), "dump": {}, "x": t[1],
                            "t0": int(t[-2]), "t1": int(t[-1])}
                cur["steps"].append(step)
            elif step is not None and line.startswith("K "):
                t = line.split()
                # name, exp, then the value tokens (hot/mod/count/vtype are not part of the abstract content)
                step["dump"][t[1]] = (t[2], " ".join(t[7:]))
    return cases


def judge(cases, now_slack=True):
    """-> list of dict(case, step, signature, text)"""
    out = []
    for c in cases:
        st = {}   # conn -> dict(multi, queued, abort, watch{key: (content, stepindex)})
        prev_dump = {}
        exec_queue = {}   # step index of an EXEC -> the (name, args) it ran
        for i, s in enumerate(c["steps"]):
            if s["x"] == "REOPEN":
                st = {}
            if s["conn"] < 0:
                prev_dump = s["dump"]
                continue
            cs = st.setdefault(s["conn"], {"multi": False, "queued": 0, "abort": False, "watch": {}, "queue": []})
            name, rep = s["name"], s["reply"]
            first = rep[0] if rep else ""
            bad = None

            def err(sig, text):
                out.append({"case": c["id"], "step": i + 1, "signature": sig, "text": text})
            if name == "MULTI":
                if cs["multi"]:
                    cs["nonqueue_err"] = True
                    if first != "E":
                        err("MULTI/nested", "nested MULTI must be an error, got %s" % " ".join(rep)[:60])
                else:
                    if first != "S4f4b":
                        err("MULTI/reply", "MULTI must reply OK, got %s" % " ".join(rep)[:60])
                    cs.update(multi=True, queued=0, abort=False, nonqueue_err=False, queue=[])
            elif name == "DISCARD":
                if cs["multi"]:
                    if first != "S4f4b":
                        err("DISCARD/reply", "DISCARD must reply OK")
                # DISCARD without MULTI is an error in Redis; nodis answers OK: not judged
                cs.update(multi=False, queued=0, abort=False, watch={}, nonqueue_err=False)
            elif name == "WATCH":
                if cs["multi"]:
                    cs["nonqueue_err"] = True
                    if first != "E":
                        err("WATCH/in-multi", "WATCH inside MULTI must be an error")
                elif first == "S4f4b":
                    for k in s["args"]:
                        cs["watch"].setdefault(k, (prev_dump.get(k), i))
            elif name == "UNWATCH":
                if not cs["multi"]:
                    cs["watch"] = {}
                else:
                    if first != "S515545554544":
                        err("UNWATCH/queued", "UNWATCH inside MULTI must be queued")
                    cs["queued"] += 1
            elif name == "EXEC":
                exec_queue[i] = list(cs.get("queue", [])) if cs["multi"] and not cs["abort"] else []
                if not cs["multi"]:
                    if first != "E":
                        err("EXEC/without-multi", "EXEC without MULTI must be an error, got %s" % " ".join(rep)[:60])
                elif cs["abort"]:
                    if first != "E":
                        err("EXEC/after-queue-error", "EXEC after a queue-time error must be an error (EXECABORT), got %s" % " ".join(rep)[:60])
                    elif s["dump"] != prev_dump and not _only_time(prev_dump, s["dump"]):
                        err("EXEC/aborted-but-changed", "an aborted transaction changed the keyspace")
                else:
                    changed, touched, writers = [], [], {}
                    for k, (content, at) in cs["watch"].items():
                        if prev_dump.get(k) != content:
                            changed.append(k)
                        for j in range(at + 1, i):
                            sj = c["steps"][j]
                            if k in sj["args"] or sj["name"] in ("FLUSHDB", "FLUSHALL") or sj["x"]:
                                touched.append((k, sj["name"]))
                            before = c["steps"][j - 1]["dump"].get(k) if j > 0 else None
                            if sj["dump"].get(k) != before:
                                wn = sj["name"]
                                if wn == "EXEC":
                                    # name the queued command that wrote the key, not the EXEC that ran it
                                    named = [qn for qn, qa in exec_queue.get(j, []) if k in qa]
                                    wn = named[-1] if named else wn
                                writers.setdefault(k, []).append(wn)
                    if first == "E" and cs.get("nonqueue_err"):
                        err("EXEC/aborted-by-nested-multi", "an error reply to MULTI/WATCH inside the transaction (not a queued command) aborted it: %s" % " ".join(rep)[:40])
                    elif changed:
                        if first.startswith("A"):
                            k = changed[0]
                            by = writers.get(k, [])
                            err("EXEC/unsignalled:%s" % (by[-1] if by else "expiry"),
                                "watched key %s changed between WATCH and EXEC but EXEC ran: %s" % (k, " ".join(rep)[:60]))
                    elif not touched:
                        if cs["queued"] == 0:
                            if first in ("N", "n"):
                                # nothing this connection watches was touched, yet the transaction was aborted
                                err("EXEC/spurious-abort", "EXEC of an empty transaction was aborted although no watched key was touched: %s" % " ".join(rep)[:60])
                            elif first not in ("A0",):
                                err("EXEC/empty", "EXEC of an empty, unwatched transaction must reply an empty array, got %s" % " ".join(rep)[:60])
                        elif first != "A%d" % cs["queued"]:
                            sig = "EXEC/spurious-abort" if first in ("N", "n") else "EXEC/reply-count"
                            err(sig, "EXEC must run the %d queued commands (no watched key was touched), got %s" % (cs["queued"], " ".join(rep)[:60]))
                    if first.startswith("A") and first == "A%d" % cs["queued"] and cs["queued"] > 0:
                        # exactly one reply per queued command
                        if _count_values(rep[1:]) != cs["queued"]:
                            err("EXEC/replies", "EXEC array does not hold one reply per queued command")
                cs.update(multi=False, queued=0, abort=False, watch={}, nonqueue_err=False)
            else:
                if cs["multi"]:
                    if first == "S515545554544":
                        cs["queued"] += 1
                        cs.setdefault("queue", []).append((name, s["args"]))
                        if s["dump"] != prev_dump and not _only_time(prev_dump, s["dump"]):
                            err("%s/executed-while-queued" % name, "a queued command changed the keyspace before EXEC")
                    elif first == "E":
                        cs["abort"] = True
                    else:
                        err("%s/not-queued" % name, "inside MULTI a command must be queued or rejected, got %s" % " ".join(rep)[:60])
            prev_dump = s["dump"]
    return out


def _only_time(a, b):
    return False


def _count_values(tokens):
    n, pending = 0, 0
    for t in tokens:
        if pending == 0:
            n += 1
            pending = 1
        if t[0] == "A":
            pending += int(t[1:]) - 1
        else:
            pending -= 1
    return n if pending == 0 else -1
