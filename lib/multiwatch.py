"""Check flow shared by C08 and C09: connection-model correspondence + MULTI/WATCH judge."""
import glob
import json
import os
from . import common as C
from . import corpora
from . import tracecheck as T
from . import multijudge as J


def sig_property(sig):
    """which of the two properties a judge signature belongs to"""
    if sig.startswith("EXEC/unsignalled") or sig == "EXEC/spurious-abort" or sig.startswith("WATCH/"):
        return "C09"
    return "C08"


def run(pid, tier, seed, replay):
    out = C.Outcome(pid, tier, seed)
    prep = C.prepare()
    pf = C.check_property_file(pid)
    bad = C.forbidden_vernacular()
    cov = out.coverage
    cov["obligations"] = pf["obligations"] + 1
    cov["discharged"] = pf["discharged"] + (0 if bad else 1)
    cov["checker_cmd"] = "make -C coq && coqc -Q . Nodis Properties/%s.v" % pid
    cov["theorems"] = pf["theorems"]
    cov["axioms"] = pf["axioms"]
    cov["closed_under_global_context"] = pf["closed_under_global_context"]
    out.assumptions = [
        "histories are interleaved at command granularity here (several connections driven in process, one command at a time); thread-level interleavings inside EXEC belong to the schedule model (Properties/Conc.v) and are listed as known findings",
        "a watched key counts as changed when its value or deadline in the index dump differs between WATCH and EXEC",
        "connection model (coq/Model/Conn.v) tied to handler.go / key.go by per-step reply and state correspondence",
    ]
    if not pf["ok"] or bad:
        out.violation({"property": pid, "broken": "proof", "file": "coq/Properties/%s.v" % pid, "detail": pf["log"][-1500:], "forbidden": bad}, nofail=True)
    if not prep.ok and prep.failed_stage in ("go-build-harness", "ocaml-build", "coq_makefile"):
        out.violation({"property": pid, "broken": prep.failed_stage, "detail": prep.log[-3000:]}, nofail=True)
        return out.finish()
    known = {f["key"]: f for f in C.findings_for(pid) if "key" in f}
    d = C.scratch_dir(pid.lower())
    stats = {"cases": 0, "steps_vs_model": 0, "model_diffs": 0, "judged_execs": 0, "transactions": 0}
    dist, samples, distinct = {}, [], set()
    confirmed = {}
    try:
        batches = []
        if replay:
            rp = json.load(open(replay))
            script = os.path.join(d, "replay.script")
            T.write_script(script, [("replay", rp.get("backend", "mem"), rp["script"])])
            batches.append(("replay", dict(script=script)))
        else:
            corpus = sorted(glob.glob(os.path.join(C.VERIF, "corpus", "C08C09", "*.script")))
            if corpus:
                script = os.path.join(d, "corpus.script")
                with open(script, "w") as f:
                    for cf in corpus:
                        f.write(open(cf).read() + "\n")
                batches.append(("corpus", dict(script=script)))
            gscript = os.path.join(d, "directed.script")
            if corpora.write_for(pid, tier, gscript):
                batches.append(("directed", dict(script=gscript)))
            k = 20 if tier == "thorough" else 1
            batches.append(("multi", dict(profile="multi", cases=60 * k, length=45, backend="mem", seed=seed * 1000 + 21)))
            batches.append(("multip", dict(profile="multi", cases=10 * k, length=45, backend="peb", seed=seed * 1000 + 22)))
        for tag, kw in batches:
            r = T.TraceRun(d, tag).run(**kw)
            if not r.ok:
                out.violation({"property": pid, "broken": "run " + tag, "detail": r.err}, nofail=True)
                continue
            stats["cases"] += r.msum[0]
            stats["steps_vs_model"] += r.msum[1]
            stats["model_diffs"] += r.msum[3]
            cases = J.parse_trace(r.tracefile)
            for c in cases:
                for s in c["steps"]:
                    dist[s["name"]] = dist.get(s["name"], 0) + 1
                    if s["name"] == "EXEC":
                        stats["judged_execs"] += 1
                        distinct.add(("EXEC", tuple(s["reply"][:1])))
                    if s["name"] == "MULTI":
                        stats["transactions"] += 1
                    distinct.add((s["name"], s["reply"][0] if s["reply"] else ""))
            if len(samples) < 2 and cases:
                samples.append([T.step_text(s["line"]) + " => " + " ".join(s["reply"])[:40] for s in cases[0]["steps"][:12]])
            verdicts = [v for v in J.judge(cases) if sig_property(v["signature"]) == pid]
            attributable = set()
            seen = set()
            for v in verdicts:
                md = r.mdiffs.get(v["case"])
                before = md is None or v["step"] < md[0]
                if before and v["signature"] in known:
                    confirmed.setdefault(v["signature"], v)
                    continue
                if not before and v["signature"] in known and v["step"] != md[0]:
                    continue
                attributable.add(v["case"])
                if v["signature"] in seen:
                    continue
                seen.add(v["signature"])
                v["reason"] = "transaction semantics violated" if before else "implementation left the model and violates the transaction semantics"
                out.violation(T.replay_of(pid, r, v))
            n = 0
            for case, (step, kind, detail) in r.mdiffs.items():
                if case in attributable or n >= 2:
                    continue
                n += 1
                out.violation(T.replay_of(pid, r, {"case": case, "step": step, "detail": detail},
                                          {"broken": "correspondence connection model/implementation",
                                           "theorems_no_longer_about_the_code": pf["theorems"]}), nofail=not verdicts)
        if pid == "C09" and not replay:
            # WATCH against a concurrent client, forced through the schedule points of tx.go: the other connection's write lands after
            # EXEC has examined the watch flags and before the queued command runs
            rc, o = C.sh([C.VH, "execiso", "watch"], env=C.go_env(), timeout=60)
            line = next((l for l in o.splitlines() if l.startswith("EXECISO")), "")
            f = dict(x.split("=", 1) for x in line.split()[1:] if "=" in x)
            stats["execiso_watch"] = line
            if f.get("a", "").startswith("A1_") and f.get("final") == "B32":
                v = {"signature": "EXEC/watch-race", "text": "WATCH x ; GET x (1) ; MULTI ; SET x 2 ; EXEC ran and x = 2 although another connection's SET x 5 was acknowledged in between (" + line + ")"}
                if v["signature"] in known:
                    confirmed.setdefault(v["signature"], v)
                else:
                    out.violation({"property": pid, "signature": v["signature"], "what": v["text"], "replay_cmd": ".cache/bin/vh execiso watch"})
            elif not line or f.get("a") in (None, "TIMEOUT"):
                out.violation({"property": pid, "broken": "vh execiso watch produced no verdict", "detail": o[-500:]}, nofail=True)
        if pid == "C08" and not replay:
            # isolation against a concurrent client, forced through the schedule points of tx.go: another connection's SET is run
            # between the two queued INCRs of an EXEC
            rc, o = C.sh([C.VH, "execiso"], env=C.go_env(), timeout=60)
            line = next((l for l in o.splitlines() if l.startswith("EXECISO")), "")
            f = dict(x.split("=", 1) for x in line.split()[1:] if "=" in x)
            stats["execiso"] = line
            if f.get("a") == "A2_I1_I101":
                v = {"signature": "EXEC/not-isolated", "text": "MULTI ; INCR x ; INCR x ; EXEC replied [1, 101]: another connection's SET x 100 ran between the two queued commands (" + line + ")"}
                if v["signature"] in known:
                    confirmed.setdefault(v["signature"], v)
                else:
                    out.violation({"property": pid, "signature": v["signature"], "what": v["text"], "replay_cmd": ".cache/bin/vh execiso"})
            elif not line or f.get("a") in (None, "TIMEOUT"):
                out.violation({"property": pid, "broken": "vh execiso produced no verdict", "detail": o[-500:]}, nofail=True)
        for sig in sorted(confirmed):
            out.known_confirmed.append(known[sig])
        cov["evaluations"] = stats["steps_vs_model"]
        cov["distinct_nontrivial"] = len(distinct)
        cov["rule"] = ("evaluations = steps of multi-connection histories compared with the connection model (reply + full state); "
                       "distinct = distinct (command, first reply token) pairs; three connections issuing MULTI/EXEC/DISCARD/WATCH/UNWATCH "
                       "mixed with string, list, set and keyspace commands on five keys")
        cov["samples"] = samples
        cov["traces_validated_against_impl"] = stats["cases"]
        cov["input_distribution"] = dict(sorted(dist.items(), key=lambda kv: -kv[1])[:40])
        cov["stats"] = stats
        cov["exhaustive"] = False
    finally:
        C.sh(["rm", "-rf", d])
    return out.finish()
