"""Runner shared by the properties decided on sequential command traces."""
import glob
import json
import os
from . import common as C
from . import corpora
from . import tracecheck as T


def cmd_of(sig):
    return sig.split("/")[0]


def run(pid, tier, seed, replay, batches_quick, batches_thorough, relevant_cmds=None, assumptions=None,
        checker_note="", model_files="coq/Model/*.v", extra_obligations=None):
    """batches: list of (profile, backend, cases, length)"""
    out = C.Outcome(pid, tier, seed)
    prep = C.prepare()
    pf = C.check_property_file(pid)
    bad = C.forbidden_vernacular()
    cov = out.coverage
    cov["obligations"] = pf["obligations"] + 1
    cov["discharged"] = pf["discharged"] + (0 if bad else 1)
    cov["checker_cmd"] = "make -C coq (coq_makefile, full .vo) && coqc -Q . Nodis Properties/%s.v" % pid
    cov["theorems"] = pf["theorems"]
    cov["axioms"] = pf["axioms"]
    cov["closed_under_global_context"] = pf["closed_under_global_context"]
    out.assumptions = list(assumptions or []) + [
        "the hand-written model (%s) describes the code: checked on every run by replaying implementation traces (reply and full index/storage dump after every step) on the extracted model" % model_files,
        "clock: each command's readings lie between the two wall-clock readings taken around it; the model is run for every millisecond in that bracket",
        "scores restricted to integers |z| < 2^53 and +-inf; glob patterns to literals, * and ?",
    ]
    if not pf["ok"] or bad:
        out.violation({"property": pid, "broken": "proof", "file": "coq/Properties/%s.v" % pid,
                       "detail": pf["log"][-1500:], "forbidden": bad}, nofail=True)
    if not prep.ok and prep.failed_stage in ("go-build-harness", "ocaml-build", "coq_makefile"):
        out.violation({"property": pid, "broken": prep.failed_stage, "detail": prep.log[-3000:]}, nofail=True)
        return out.finish()

    known = {f["key"]: f for f in C.findings_for(pid) if "key" in f}
    relevant = (lambda sig: cmd_of(sig) in relevant_cmds) if relevant_cmds else None
    d = C.scratch_dir(pid.lower())
    stats = {"cases": 0, "steps_vs_model": 0, "unmodelled_cuts": 0, "steps_judged": 0, "unjudged": 0,
             "model_diffs": 0, "spec_diffs": 0}
    dist = {}
    samples = []
    distinct = set()
    try:
        runs = []
        if replay:
            rp = json.load(open(replay))
            script = os.path.join(d, "replay.script")
            T.write_script(script, [("replay", rp.get("backend", "mem"), rp["script"])])
            runs.append(("replay", T.TraceRun(d, "replay").run(script=script)))
        else:
            # corpus first
            corpus = sorted(glob.glob(os.path.join(C.VERIF, "corpus", pid, "*.script")))
            if corpus:
                script = os.path.join(d, "corpus.script")
                with open(script, "w") as f:
                    for c in corpus:
                        f.write(open(c).read() + "\n")
                runs.append(("corpus", T.TraceRun(d, "corpus").run(script=script)))
            gscript = os.path.join(d, "directed.script")
            if corpora.write_for(pid, tier, gscript):
                runs.append(("directed", T.TraceRun(d, "directed").run(script=gscript)))
            batches = batches_thorough if tier == "thorough" else batches_quick
            for i, (profile, backend, cases, length) in enumerate(batches):
                tag = "%s-%s-%d" % (profile, backend, i)
                runs.append((tag, T.TraceRun(d, tag).run(profile=profile, cases=cases, length=length,
                                                         backend=backend, seed=seed * 1000 + i)))
        all_confirmed = {}
        for tag, r in runs:
            if not r.ok:
                out.violation({"property": pid, "broken": "run " + tag, "detail": r.err}, nofail=True)
                continue
            stats["cases"] += r.msum[0]
            stats["steps_vs_model"] += r.msum[1]
            stats["unmodelled_cuts"] += r.msum[2]
            stats["model_diffs"] += r.msum[3]
            stats["steps_judged"] += r.jsum[1]
            stats["unjudged"] += r.jsum[2]
            stats["spec_diffs"] += r.jsum[3]
            for cid in r.order:
                c = r.cases[cid]
                for s, res in zip(c["steps"], c["results"]):
                    t = s.split()
                    name = t[2] if t[0] == "OP" else "X:" + t[1]
                    dist[name] = dist.get(name, 0) + 1
                    if not res.startswith("E") and res not in ("DEAD",):
                        distinct.add((name, len(t), res.split()[0] if res else ""))
                if len(samples) < 3 and c["steps"]:
                    samples.append({"case": cid, "backend": c["backend"],
                                    "steps": [T.step_text(s) + " => " + res[:60] for s, res in list(zip(c["steps"], c["results"]))[:6]]})
            viol, confirmed, nofail = T.classify(r, set(known), relevant)
            for sig, ex in confirmed.items():
                all_confirmed.setdefault(sig, ex)
            seen_sig = set()
            for v in viol:
                if v["signature"] in seen_sig:
                    continue
                seen_sig.add(v["signature"])
                try:
                    mini = T.shrink(pid, r, v, d, set(known)) if tier != "none" else None
                except Exception:
                    mini = None
                rp = T.replay_of(pid, r, v)
                if mini:
                    rp["script"] = mini
                    rp["readable"] = [T.step_text(s) for s in mini]
                    rp["failing_step"] = len(mini)
                out.violation(rp)
            seen_case = set()
            for nf in nofail:
                if len(seen_case) >= 3:
                    break
                seen_case.add(nf["case"])
                rp = T.replay_of(pid, r, nf, {"broken": "correspondence model/implementation (coq/Model vs /repo)",
                                              "theorems_no_longer_about_the_code": pf["theorems"]})
                out.violation(rp, nofail=not viol)
        for sig in sorted(all_confirmed):
            out.known_confirmed.append(known[sig])
        cov["evaluations"] = stats["steps_vs_model"]
        cov["distinct_nontrivial"] = len(distinct)
        cov["rule"] = ("evaluations = trace steps whose reply and full post-state were compared with the extracted model; "
                       "distinct = distinct (command, arity, reply kind) triples whose reply was not an error; "
                       "generated from one PRNG (seed) per batch plus the corpus")
        cov["samples"] = samples
        cov["traces_validated_against_impl"] = stats["cases"]
        cov["input_distribution"] = dict(sorted(dist.items(), key=lambda kv: -kv[1])[:60])
        cov["stats"] = stats
        cov["known_findings_reconfirmed"] = sorted(all_confirmed)
        cov["known_findings_listed"] = sorted(known)
        cov["exhaustive"] = False
    finally:
        C.sh(["rm", "-rf", d])
    return out.finish()
