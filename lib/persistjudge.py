"""Judges for the persistence properties (C11 close/open, C12 eviction and failed writes)."""
from . import multijudge as J


def abstract(dump, now=None):
    """dump: {name: (exp, valuetokens)} -> same, without entries whose deadline has passed (or is about to)"""
    out = {}
    for k, (exp, val) in dump.items():
        e = int(exp)
        if now is not None and e != 0 and e <= now + 50:
            continue
        out[k] = (e, val)
    return out


def step_time(line_tokens):
    return None


def judge_reopen(case, times):
    """case from multijudge.parse_trace; times: list of t1 per step. -> list of verdict dicts"""
    out = []
    steps = case["steps"]
    for i in range(len(steps) - 2):
        if steps[i]["x"] == "PROBE" and steps[i + 1]["x"] == "REOPEN" and steps[i + 2]["x"] == "PROBE":
            now = times[i + 2]
            a = abstract(steps[i]["dump"], now)
            b = abstract(steps[i + 2]["dump"], now)
            for k in sorted(set(a) | set(b)):
                if k in b and k not in a:
                    # was it expired before the close rather than absent?
                    if k in steps[i]["dump"]:
                        e = int(steps[i]["dump"][k][0])
                        if e != 0 and e + 20 < steps[i]["t0"] and (b[k][0] == 0 or b[k][0] > now + 50):
                            # its deadline had passed well before the pre-close probe, and it is alive after Open
                            out.append({"case": case["id"], "step": i + 3, "signature": "REOPEN/expired-alive",
                                        "text": "key %s had deadline %d (passed before Close) and is alive after Open with deadline %d: %s" % (k, e, b[k][0], b[k][1][:60])})
                        continue
                    out.append({"case": case["id"], "step": i + 3, "signature": "REOPEN/resurrected",
                                "text": "key %s was absent before Close and exists after Open: %s" % (k, b[k][1][:80])})
                elif k in a and k not in b:
                    if k in steps[i + 2]["dump"]:
                        continue
                    out.append({"case": case["id"], "step": i + 3, "signature": "REOPEN/lost",
                                "text": "key %s existed before Close and is gone after Open" % k})
                elif value_norm(a[k][1]) != value_norm(b[k][1]):
                    sig = "REOPEN/unloadable" if b[k][1] == "cold" else "REOPEN/value"
                    out.append({"case": case["id"], "step": i + 3, "signature": sig,
                                "text": "key %s: before %s after %s" % (k, a[k][1][:80], b[k][1][:80])})
                elif a[k][0] != b[k][0]:
                    out.append({"case": case["id"], "step": i + 3, "signature": "REOPEN/deadline",
                                "text": "key %s: deadline before %d after %d" % (k, a[k][0], b[k][0])})
    return out


def parse_times(path):
    """-> {case_id: [t1 of each step]}"""
    res = {}
    cur = None
    with open(path, errors="replace") as f:
        for line in f:
            if line.startswith("CASE "):
                cur = []
                res[line.split()[1]] = cur
            elif cur is not None and (line.startswith("OP ") or line.startswith("X ")):
                lhs = line.partition(" => ")[0].split()
                cur.append(int(lhs[-1]))
    return res


def value_norm(tokens):
    """normalise value tokens for comparing a run with passes against one without: the nil flag of strings and the
    structural self-check words are representation details already covered by the model correspondence"""
    t = tokens.split()
    if t and t[0] == "s":
        return "s " + " ".join(t[2:])
    return tokens


def canon_reply(name, toks):
    """HGETALL and HSCAN hand their page over as a Go map: the order of the field/value pairs is random"""
    def sort_pairs(l):
        prs = sorted((l[i], l[i + 1]) for i in range(0, len(l) - 1, 2))
        return [x for p in prs for x in p]
    if name == "HGETALL" and toks and toks[0].startswith("A"):
        return [toks[0]] + sort_pairs(toks[1:])
    if name == "HSCAN" and len(toks) >= 3 and toks[0] == "A2":
        return toks[:3] + sort_pairs(toks[3:])
    return toks


def compare_runs(with_case, without_case, ops_only=True):
    """replies of the command steps pairwise, then the final abstract states"""
    out = []
    a = [s for s in with_case["steps"] if s["conn"] >= 0]
    b = [s for s in without_case["steps"] if s["conn"] >= 0]
    n = min(len(a), len(b))
    for i in range(n):
        if canon_reply(a[i]["name"], a[i]["reply"]) != canon_reply(b[i]["name"], b[i]["reply"]) and a[i]["name"] not in ("DBSIZE",):
            idx = with_case["steps"].index(a[i]) + 1
            out.append({"case": with_case["id"], "step": idx, "signature": "EVICT/reply:%s" % a[i]["name"],
                        "text": "with passes: %s   without: %s" % (" ".join(a[i]["reply"])[:80], " ".join(b[i]["reply"])[:80])})
            return out
    fa = with_case["steps"][-1]["dump"] if with_case["steps"] else {}
    fb = without_case["steps"][-1]["dump"] if without_case["steps"] else {}
    # the two runs happen at different wall-clock times: deadlines set by relative commands are compared
    # relative to the start of their run, within the two run lengths
    def span(c):
        return (c["steps"][0]["t0"], c["steps"][-1]["t1"]) if c["steps"] else (0, 0)
    (sa, ea), (sb, eb) = span(with_case), span(without_case)
    slack = (ea - sa) + (eb - sb) + 2

    def same_deadline(x, y):
        x, y = int(x), int(y)
        if x == y:
            return True
        if x == 0 or y == 0:
            return False
        return abs((x - sa) - (y - sb)) <= slack
    for k in sorted(set(fa) | set(fb)):
        va = (fa[k][0], value_norm(fa[k][1])) if k in fa else None
        vb = (fb[k][0], value_norm(fb[k][1])) if k in fb else None
        if va is not None and vb is not None and va[1] == vb[1] and same_deadline(va[0], vb[0]):
            continue
        if va is not None and vb is not None and "cold" in (va[1], vb[1]) and same_deadline(va[0], vb[0]):
            continue    # not loaded at the end of one run (no final probe in a shrunk history): the replies have been compared
        if va != vb:
            out.append({"case": with_case["id"], "step": len(with_case["steps"]), "signature": "EVICT/state",
                        "text": "key %s with passes: %s   without: %s" % (k, str(va)[:90], str(vb)[:90])})
            break
    return out
