"""C19: whole cursor-following iterations of SCAN / SSCAN / HSCAN / ZSCAN.

The harness step  IT <conn> <max> <churn> <NAME> <n> <args with @C>  runs the loop (feeding each
returned cursor back) and writes every call as an ordinary OP step between X ITBEGIN and X ITEND,
so the per-call correspondence with the Coq model is checked like for every other command, and this
module judges each whole iteration against the dumps:
  complete   every element present in every dump of the iteration (and matching MATCH/TYPE) is in some batch
  sound      every returned element is present, unexpired and matching when the call is made
  terminates the loop reaches cursor 0 within (elements at the start + elements added meanwhile + 2) calls
"""
import json
import os
import random
from . import common as C
from . import tracecheck as T
from . import persist as PS
from .corpora import op, x, lit

TYPE_OF_VT = {"1": "string", "2": "set", "3": "list", "4": "zset", "5": "hash"}
FAMS = ("SCAN", "SSCAN", "HSCAN", "ZSCAN")


def it(conn, maxcalls, churn, *words):
    name, args = words[0], words[1:]
    return "IT %d %d %d %s %d %s" % (conn, maxcalls, 1 if churn else 0, name, len(args),
                                     " ".join(a if a == "@C" else lit(a) for a in args))


def glob_match(pat, s):
    """literal, * and ? only (the model's pattern domain)"""
    if not pat:
        return not s
    if pat[0] == "*":
        return any(glob_match(pat[1:], s[i:]) for i in range(len(s) + 1))
    if not s:
        return False
    if pat[0] == "?" or pat[0] == s[0]:
        return glob_match(pat[1:], s[1:])
    return False


# ---------------------------------------------------------------------------------------- generation
def build_collection(fam, size, prefix="m"):
    """commands that create `size` elements; -> (steps, key)"""
    steps = []
    names = ["%s%d" % (prefix, i) for i in range(size)]
    chunk = 200
    if fam == "SCAN":
        for i, nm in enumerate(names):
            kind = i % 5
            if kind == 0:
                steps.append(op(0, "SET", nm, "v%d" % i))
            elif kind == 1:
                steps.append(op(0, "HSET", nm, "f", "v"))
            elif kind == 2:
                steps.append(op(0, "SADD", nm, "a"))
            elif kind == 3:
                steps.append(op(0, "ZADD", nm, "1", "a"))
            else:
                steps.append(op(0, "RPUSH", nm, "a"))
        return steps, None
    for i in range(0, size, chunk):
        part = names[i:i + chunk]
        if fam == "SSCAN":
            steps.append(op(0, "SADD", "coll", *part))
        elif fam == "HSCAN":
            steps.append(op(0, "HSET", "coll", *[w for nm in part for w in (nm, "v" + nm)]))
        else:
            steps.append(op(0, "ZADD", "coll", *[w for j, nm in enumerate(part) for w in (str((i + j) % 7), nm)]))
    return steps, "coll"


def iteration(fam, key, count, pattern, typ, maxcalls, churn):
    args = ([key] if key else []) + ["@C"]
    if pattern is not None:
        args += ["MATCH", pattern]
    if count is not None:
        args += ["COUNT", str(count)]
    if typ is not None:
        args += ["TYPE", typ]
    return it(0, maxcalls, churn, fam, *args)


def gen_cases(tier, seed):
    rnd = random.Random(seed)
    cases = []
    sizes = [0, 1, 2, 3, 5, 10, 11, 12, 21, 37]
    big = [100, 257] if tier != "thorough" else [100, 257, 1000, 3000]
    n = 0
    for fam in FAMS:
        for size in sizes + big:
            # the keyspace model keeps its index and object heaps as association lists: replaying a SCAN case costs
            # about 50 ms per step at 257 keys and far more than 100 times that at 1000 keys (measured), so SCAN is replayed
            # up to 257 keys; the per-key scans keep the large sizes (3000 members replay in 3 s).  All sizes are
            # covered by the theorem C19_scan; the replay only ties the model to the code.
            if fam == "SCAN" and size > 257:
                continue
            counts = [None, 1, 2, 3, 10, max(size - 1, 1), max(size, 1), size + 1, 1000]
            if size >= 100:
                counts = [None, max(size // 40, 7), size - 1, size, size + 1, 5000] + ([10] if size <= 257 else [])
            counts = sorted(set(counts), key=lambda c: (c is None, c))
            pats = [None, "*", "m1*", "?1", "nomatch", "*5"]
            for backend, cold in (("mem", False), ("peb", True)):
                if size >= 100 and backend == "peb" and tier != "thorough":
                    continue
                steps, key = build_collection(fam, size)
                if cold:
                    steps += [x("GC"), x("GC"), x("GC")]
                for count in counts:
                    if size <= 12 or rnd.random() < 0.5 or tier == "thorough":
                        ps = pats if size <= 12 else [None, rnd.choice(pats[1:])]
                        for pat in ps:
                            typs = [None]
                            if fam == "SCAN" and (size <= 12 and count in (None, 2)):
                                typs = [None, "string", "hash", "zset", "set", "list"]
                            for typ in typs:
                                calls_bound = 2 * size + 8
                                steps.append(iteration(fam, key, count, pat, typ, calls_bound, False))
                                if cold:
                                    steps += [x("GC"), x("GC")]
                    if size <= 37 and size >= 2:
                        steps.append(iteration(fam, key, count, None, None, 2 * size + 8, True))
                cases.append(("scan-%s-%d-%s-%d" % (fam, size, backend, n), backend, steps))
                n += 1
    # after a close/open cycle nothing is in memory
    for backend in ("peb", "mem"):
        steps, _ = build_collection("SCAN", 11)
        steps += [op(0, "SADD", "coll", "a", "b", "c"), op(0, "HSET", "hcoll", "f1", "1", "f2", "2"), op(0, "ZADD", "zcoll", "1", "a", "2", "b"), x("REOPEN")]
        for typ in (None, "string", "hash", "set"):
            steps.append(iteration("SCAN", None, 3, None, typ, 40, False))
        steps += [x("REOPEN"), iteration("SSCAN", "coll", 2, None, None, 10, False), x("REOPEN"), iteration("HSCAN", "hcoll", 1, None, None, 10, False),
                  x("REOPEN"), iteration("ZSCAN", "zcoll", 1, None, None, 10, False)]
        cases.append(("scan-reopen-%s" % backend, backend, steps))
    # expiring keys in the keyspace: never returned once expired
    steps = [op(0, "SET", "m%d" % i, "v") for i in range(8)] + [op(0, "SET", "gone", "v", "PX", "1"), x("SLEEP", "3")]
    for count in (None, 1, 3):
        steps.append(iteration("SCAN", None, count, None, None, 30, False))
    cases.append(("scan-expired", "mem", steps))
    # a key BEFORE the cursor expires between two calls of one iteration: SCAN's cursor is a position in the ordered index, an
    # expired record keeps its position until it is collected, so every key that lives through the iteration is still returned
    # (the loop is written out call by call - the positions are known - with a pause after the first call)
    for count in (2, 3, 4):
        steps = [op(0, "SET", "m%d" % i, "v") for i in range(10)] + [op(0, "SET", "m1", "v", "PX", "8"), op(0, "SET", "m0", "v", "PX", "8")]
        steps += [x("ITBEGIN"), op(0, "SCAN", "0", "COUNT", str(count)), x("SLEEP", "25")]
        calls = 1
        pos = count + 1           # the cursor is the (1-based) number of the first key of the next call
        while pos <= 10:
            steps.append(op(0, "SCAN", str(pos), "COUNT", str(count)))
            calls += 1
            pos += count
        steps.append(x("ITEND", "done:%d" % calls))
        cases.append(("scan-expiring-before-cursor-%d" % count, "mem", steps))
    return cases


# ---------------------------------------------------------------------------------------- judging
def parse_trace(path):
    """-> list of cases; each step: dict(line, name, args, reply tokens, x, xarg, t0, t1, keys)
    keys: name -> dict(exp, vt, toks) of the dump after the step"""
    cases = []
    cur = step = None
    with open(path) as f:
        for line in f:
            line = line.rstrip("\n")
            if line.startswith("CASE "):
                t = line.split()
                cur = {"id": t[1], "backend": t[2], "steps": []}
                cases.append(cur)
            elif cur is not None and (line.startswith("OP ") or line.startswith("X ")):
                lhs, _, rhs = line.partition(" => ")
                t = lhs.split()
                if t[0] == "OP":
                    n = int(t[3])
                    step = {"line": " ".join(t[:-2]), "name": t[2].upper(), "args": t[4:4 + n] if n else [], "reply": rhs.split(),
                            "x": None, "xarg": None, "t0": int(t[-2]), "t1": int(t[-1]), "keys": {}}
                else:
                    step = {"line": " ".join(t[:-2]), "name": "X:" + t[1], "args": [], "reply": rhs.split(), "x": t[1], "xarg": t[2],
                            "t0": int(t[-2]), "t1": int(t[-1]), "keys": {}}
                cur["steps"].append(step)
            elif step is not None and line.startswith("K "):
                t = line.split()
                step["keys"][t[1]] = {"exp": int(t[2]), "vt": t[6], "toks": t[7:]}
    return cases


def elements_of(fam, key, step, memory, now_lo, now_hi):
    """element tokens (-> value token or None) of the scanned collection in the dump after `step`;
    second result False when the element set is not known (cold value never seen hot)"""
    if fam == "SCAN":
        out = {}
        letter = {"s": "string", "l": "list", "h": "hash", "S": "set", "z": "zset"}
        for k, e in step["keys"].items():
            toks = e["toks"] if e["toks"] != ["cold"] else memory.get(k)
            ty = letter.get(toks[0]) if toks else TYPE_OF_VT.get(e["vt"])
            if e["exp"] != 0 and e["exp"] <= now_hi + 2:
                if e["exp"] >= now_lo - 2:
                    out[k] = ("maybe", ty, e["vt"])
                continue
            out[k] = ("live", ty, e["vt"])
        return out, True
    e = step["keys"].get(key)
    if e is None:
        return {}, True
    toks = e["toks"]
    if toks == ["cold"]:
        toks = memory.get(key)
        if toks is None:
            return {}, False
    else:
        memory[key] = toks
    if toks[0] == "S":
        return {m: None for m in toks[2:]}, True
    if toks[0] == "h":
        kv = toks[2:]
        return {kv[i]: kv[i + 1] for i in range(0, len(kv), 2)}, True
    if toks[0] == "z":
        nd = int(toks[2])
        d = toks[3:3 + 2 * nd]
        return {d[i]: d[i + 1] for i in range(0, len(d), 2)}, True
    return {}, False


def tokstr(t):
    if t == "-":
        return ""
    if t[0] in "P#":
        return None
    try:
        return bytes.fromhex(t).decode("latin1")
    except ValueError:
        return None


def score_norm(s):
    """impl dump prints scores with %v-like formatting; replies with FormatFloat('f'): compare as floats"""
    try:
        return float(s.replace("+Inf", "inf").replace("-Inf", "-inf"))
    except ValueError:
        return s


def judge_case(c):
    """-> list of dict(case, step, signature, text)"""
    out = []
    steps = c["steps"]
    memory = {}
    hot_since_open = set()
    i = 0
    # keep the memory of hot values up to date outside iterations as well
    while i < len(steps):
        s = steps[i]
        if s["x"] == "REOPEN":
            hot_since_open = set()
        for k, e in s["keys"].items():
            if e["toks"] != ["cold"]:
                memory[k] = e["toks"]
                hot_since_open.add(k)
        if s["x"] != "ITBEGIN":
            i += 1
            continue
        j = i + 1
        while j < len(steps) and steps[j]["x"] != "ITEND":
            j += 1
        if j >= len(steps):
            break
        body = steps[i + 1:j]
        end = steps[j]
        status, _, ncalls = end["xarg"].partition(":")
        calls = [(idx, b) for idx, b in enumerate(body) if b["name"] in FAMS]
        if not calls:
            i = j + 1
            continue
        fam = calls[0][1]["name"]
        churned = any(b["name"] not in FAMS and b["x"] is None for b in body)   # commands between the calls (a pause is not churn)
        sfx = "-under-churn" if churned else ""
        a = calls[0][1]["args"]
        key = a[0] if fam != "SCAN" else None
        rest = [tokstr(t) for t in (a[2:] if fam != "SCAN" else a[1:])]
        pat, typ = "*", None
        for q in range(0, len(rest) - 1):
            if rest[q] is not None and rest[q].upper() == "MATCH" and rest[q + 1] is not None:
                pat = rest[q + 1]
            if rest[q] is not None and rest[q].upper() == "TYPE" and rest[q + 1] is not None:
                typ = rest[q + 1].lower()

        def matches(tok, info):
            sname = tokstr(tok)
            if sname is None:
                return None
            if not glob_match(pat, sname):
                return False
            if fam == "SCAN" and typ is not None and info is not None and info[1] != typ:
                return False
            return True
        # element sets: before the first call (dump of ITBEGIN) and after every body step
        dumps = [steps[i]] + body
        sets = []
        known = True
        for d in dumps:
            es, ok = elements_of(fam, key, d, memory, d["t0"], d["t1"])
            known = known and ok
            sets.append(es)
        if not known:
            i = j + 1
            continue
        tracked = None
        for es in sets:
            live = {k for k, v in es.items() if not (fam == "SCAN" and v[0] == "maybe")}
            tracked = live if tracked is None else (tracked & live)
        tracked = {k for k in tracked if matches(k, sets[0].get(k)) is True}
        returned = set()
        first_step = i + 2  # 1-based index of the first body step in the case
        for idx, b in calls:
            r = b["reply"]
            stepno = first_step + idx
            if len(r) < 3 or r[0] != "A2" or not r[2].startswith("A"):
                out.append({"case": c["id"], "step": stepno, "signature": "%s/error" % fam, "text": "reply is not a cursor reply: " + " ".join(r)[:80]})
                break
            items = [t[1:] for t in r[3:]]
            if fam in ("HSCAN", "ZSCAN"):
                pairs = [(items[q], items[q + 1]) for q in range(0, len(items) - 1, 2)]
            else:
                pairs = [(t, None) for t in items]
            before = sets[idx]   # dump preceding this body step
            for el, val in pairs:
                returned.add(el)
                if el not in before:
                    out.append({"case": c["id"], "step": stepno, "signature": "%s/unsound" % fam,
                                "text": "returned element %s does not exist when the call is made" % el[:40]})
                    break
                if matches(el, before.get(el)) is False:
                    out.append({"case": c["id"], "step": stepno, "signature": "%s/unsound-filter" % fam,
                                "text": "returned element %s does not match MATCH %r TYPE %r" % (el[:40], pat, typ)})
                    break
                if fam == "HSCAN" and before[el] != val:
                    out.append({"case": c["id"], "step": stepno, "signature": "HSCAN/wrong-value", "text": "field %s value %s, stored %s" % (el[:30], val[:30], before[el][:30])})
                    break
                if fam == "ZSCAN":
                    sv = tokstr(val)
                    if sv is None or score_norm(sv) != score_norm(before[el]):
                        out.append({"case": c["id"], "step": stepno, "signature": "ZSCAN/wrong-value", "text": "member %s score %s, stored %s" % (el[:30], sv, before[el])})
                        break
        last_step = first_step + calls[-1][0]
        if status == "limit":
            out.append({"case": c["id"], "step": last_step, "signature": "%s/nonterminating%s" % (fam, sfx),
                        "text": "cursor 0 not reached after %s calls over %d elements (last cursor reply %s)" % (ncalls, len(sets[0]), " ".join(calls[-1][1]["reply"][:2]))})
        elif status == "done":
            missing = sorted(tracked - returned)
            if missing:
                sig = "%s/incomplete%s" % (fam, sfx)
                if fam == "SCAN" and typ is not None and all(sets[0][k][2] == "0" and k not in hot_since_open for k in missing):
                    # the records have not been read since Open: their cached type is still unknown
                    sig = "SCAN/type-filter-before-first-read"
                out.append({"case": c["id"], "step": last_step, "signature": sig,
                            "text": "%d of %d elements present during the whole iteration were never returned (first: %s); %s calls; command %s" %
                                    (len(missing), len(tracked), missing[0][:40], ncalls, T.step_text(calls[0][1]["line"])[:80])})
            added = len(set().union(*[set(es) for es in sets])) - len(sets[0])
            if int(ncalls) > len(sets[0]) + added + 2:
                out.append({"case": c["id"], "step": last_step, "signature": "%s/too-many-calls%s" % (fam, sfx),
                            "text": "%s calls for %d elements" % (ncalls, len(sets[0]))})
        i = j + 1
    return out


def run(tier, seed, replay=None):
    pid = "C19"
    out = C.Outcome(pid, tier, seed)
    prep, pf, bad = PS._common_start(pid)
    cov = PS._fill_cov(out, pid, pf, bad)
    out.assumptions = [
        "patterns are literals with * and ? (the model's glob domain); TYPE filters are the five type names",
        "elements 'present for the whole iteration' are computed from the implementation's own dumps after every step of the iteration",
        "the collection under iteration changes only between calls (one client); concurrent mutation during a call is C05's subject",
        "cold = the value was evicted by VerifGC passes on the Pebble backend before the iteration (and again between iterations)",
    ]
    if not pf["ok"] or bad:
        out.violation({"property": pid, "broken": "proof", "detail": pf["log"][-1500:], "forbidden": bad}, nofail=True)
    if not prep.ok and prep.failed_stage in ("go-build-harness", "ocaml-build", "coq_makefile"):
        out.violation({"property": pid, "broken": prep.failed_stage, "detail": prep.log[-3000:]}, nofail=True)
        return out.finish()
    known = {f["key"]: f for f in C.findings_for(pid) if "key" in f}
    d = C.scratch_dir("c19")
    stats = {"cases": 0, "steps_vs_model": 0, "model_diffs": 0, "iterations": 0, "calls": 0, "churned_iterations": 0, "cold_iterations": 0}
    confirmed, dist, samples = {}, {}, []
    try:
        batches = []
        if replay:
            rp = json.load(open(replay))
            script = os.path.join(d, "replay.script")
            T.write_script(script, [("replay", rp.get("backend", "mem"), rp["script"])])
            batches.append(("replay", script))
        else:
            cases = gen_cases(tier, seed)
            # shard: several harness/model runs in sequence keep every trace file moderate
            shard = 12
            for b in range(0, len(cases), shard):
                script = os.path.join(d, "iter%d.script" % b)
                T.write_script(script, cases[b:b + shard])
                batches.append(("iter%d" % b, script))
        for tag, script in batches:
            r = T.TraceRun(d, tag).run(script=script)
            if not r.ok:
                out.violation({"property": pid, "broken": "run " + tag, "detail": r.err}, nofail=True)
                continue
            stats["cases"] += r.msum[0]
            stats["steps_vs_model"] += r.msum[1]
            stats["model_diffs"] += r.msum[3]
            verdicts = []
            for c in parse_trace(r.tracefile):
                for s in c["steps"]:
                    if s["x"] == "ITBEGIN":
                        stats["iterations"] += 1
                        if c["backend"] == "peb":
                            stats["cold_iterations"] += 1
                    if s["name"] in FAMS:
                        stats["calls"] += 1
                        dist[s["name"]] = dist.get(s["name"], 0) + 1
                    elif s["x"] is None:
                        dist["churn/build:" + s["name"]] = dist.get("churn/build:" + s["name"], 0) + 1
                verdicts += judge_case(c)
                if len(samples) < 3:
                    samples.append([T.step_text(s["line"]) for s in c["steps"][-6:]])
            PS._report(out, pid, r, verdicts, known, confirmed, pf)
            os.remove(r.tracefile)
        for sig in sorted(confirmed):
            out.known_confirmed.append(known[sig])
        cov["evaluations"] = stats["steps_vs_model"]
        cov["distinct_nontrivial"] = stats["iterations"]
        cov["rule"] = ("evaluations = steps (builds, scan calls, churn commands, eviction passes) compared with the Coq model; distinct = complete "
                       "cursor-following loops judged for completeness, soundness and termination over sizes 0..%s, COUNT absent/1/small/size-1/size/size+1/large, "
                       "MATCH patterns, TYPE filters, hot and evicted values, quiescent and with untracked elements added/removed between calls"
                       % ("3000" if tier == "thorough" else "257"))
        cov["samples"] = samples
        cov["traces_validated_against_impl"] = stats["cases"]
        cov["input_distribution"] = dict(sorted(dist.items(), key=lambda kv: -kv[1])[:40])
        cov["stats"] = stats
        cov["exhaustive"] = False
    finally:
        C.sh(["rm", "-rf", d])
    return out.finish()
