"""Directed / exhaustive scripts generated at check time (deterministic), run before the PRNG batches.
Each function returns a list of (case_id, backend, [step lines])."""
import itertools


def lit(s):
    if isinstance(s, int):
        s = str(s)
    return s.encode("latin1").hex() if s else "-"


def op(conn, *words):
    name, args = words[0], words[1:]
    return "OP %d %s %d %s" % (conn, name, len(args), " ".join(lit(a) for a in args) if args else ".")


def x(opname, arg="-"):
    return "X %s %s" % (opname, arg)


# ---- C02: every (start, stop) in [-len-2, len+2]^2 for every length 0..6 ---------------
def c02(tier):
    cases = []
    maxlen = 6 if tier == "thorough" else 5
    for n in range(0, maxlen + 1):
        elems = ["e%d" % i for i in range(n)]
        rng = range(-n - 2, n + 3)
        push = [op(0, "RPUSH", "l", *elems)] if n else []
        # read-only sweeps in one case
        steps = list(push)
        for s in rng:
            for t in rng:
                steps.append(op(0, "LRANGE", "l", s, t))
        for i in rng:
            steps.append(op(0, "LINDEX", "l", i))
        steps.append(op(0, "LLEN", "l"))
        for big in ("4611686018427387904", "9223372036854775807", "-9223372036854775808", "-4611686018427387904"):
            steps += [op(0, "LINDEX", "l", big), op(0, "LRANGE", "l", big, big), op(0, "LRANGE", "l", "0", big)]
        cases.append(("c02-read-%d" % n, "mem", steps))
        # destructive ones: a fresh list per call (DEL + RPUSH inside one case keeps it cheap)
        steps = []
        for s in rng:
            for t in rng:
                steps += [op(0, "DEL", "l")] + push + [op(0, "LTRIM", "l", s, t), op(0, "LRANGE", "l", 0, -1), op(0, "EXISTS", "l")]
        cases.append(("c02-ltrim-%d" % n, "mem", steps))
        steps = []
        for i in rng:
            steps += [op(0, "DEL", "l")] + push + [op(0, "LSET", "l", i, "X"), op(0, "LRANGE", "l", 0, -1), op(0, "EXISTS", "l")]
        for c in range(0, n + 2):
            for cmd in ("LPOP", "RPOP"):
                steps += [op(0, "DEL", "l")] + push + [op(0, cmd, "l", c), op(0, "LRANGE", "l", 0, -1), op(0, "LLEN", "l"), op(0, "EXISTS", "l")]
        for cmd in ("LPOP", "RPOP"):
            steps += [op(0, "DEL", "l")] + push + [op(0, cmd, "l"), op(0, "LRANGE", "l", 0, -1), op(0, "EXISTS", "l")]
        cases.append(("c02-lset-pop-%d" % n, "mem", steps))
    # duplicates: LINSERT at every pivot, LREM with every count
    base = ["a", "b", "a", "c", "a", ""]
    steps = []
    for where in ("BEFORE", "AFTER"):
        for pivot in ["a", "b", "c", "", "zz"]:
            steps += [op(0, "DEL", "l"), op(0, "RPUSH", "l", *base), op(0, "LINSERT", "l", where, pivot, "N"),
                      op(0, "LRANGE", "l", 0, -1), op(0, "LLEN", "l"), op(0, "RPUSH", "l", "t"), op(0, "LPUSH", "l", "h"),
                      op(0, "LRANGE", "l", 0, -1), op(0, "RPOP", "l"), op(0, "LPOP", "l"), op(0, "LLEN", "l")]
    for cnt in range(-4, 5):
        for v in ["a", "b", "", "zz"]:
            steps += [op(0, "DEL", "l"), op(0, "RPUSH", "l", *base), op(0, "LREM", "l", cnt, v), op(0, "LRANGE", "l", 0, -1),
                      op(0, "LLEN", "l"), op(0, "EXISTS", "l")]
    # moves, including onto itself with one element and onto other types
    for cmd in ("RPOPLPUSH", "LPOPRPUSH"):
        steps += [op(0, "DEL", "l", "m"), op(0, "RPUSH", "l", "a", "b", "c"), op(0, cmd, "l", "m"), op(0, cmd, "l", "m"),
                  op(0, "LRANGE", "l", 0, -1), op(0, "LRANGE", "m", 0, -1), op(0, cmd, "l", "m"), op(0, "EXISTS", "l"),
                  op(0, "LRANGE", "m", 0, -1), op(0, cmd, "l", "m"), op(0, "DEL", "s"), op(0, "RPUSH", "s", "only"), op(0, cmd, "s", "s"),
                  op(0, "LRANGE", "s", 0, -1)]
    cases.append(("c02-dups-moves", "mem", steps))
    return cases


# ---- C03: set algebra over all triples of subsets of {a,b,c}; hash scripts ------------------
def c03(tier):
    cases = []
    U = ["a", "b", ""]
    subsets = [list(c) for r in range(len(U) + 1) for c in itertools.combinations(U, r)]
    triples = list(itertools.product(subsets, repeat=3))
    if tier != "thorough":
        triples = triples[::3]
    steps = []
    for A, B, Cc in triples:
        steps.append(op(0, "DEL", "A", "B", "C", "D"))
        for name, s in (("A", A), ("B", B), ("C", Cc)):
            if s:
                steps.append(op(0, "SADD", name, *s))
        steps += [op(0, "SDIFF", "A", "B", "C"), op(0, "SINTER", "A", "B", "C"), op(0, "SUNION", "A", "B", "C"),
                  op(0, "SDIFF", "A", "B"), op(0, "SINTER", "A", "A"), op(0, "SUNION", "B", "C"),
                  op(0, "SADD", "D", "old"), op(0, "SDIFFSTORE", "D", "A", "B", "C"), op(0, "SMEMBERS", "D"),
                  op(0, "SINTERSTORE", "D", "A", "B"), op(0, "SMEMBERS", "D"), op(0, "SUNIONSTORE", "D", "B", "C"), op(0, "SMEMBERS", "D"),
                  op(0, "SCARD", "A"), op(0, "SISMEMBER", "A", "")]
    cases.append(("c03-algebra", "mem", steps))
    steps = []
    for n in range(0, 6):
        ms = ["m%d" % i for i in range(n)]
        for cnt in range(0, n + 2):
            steps += [op(0, "DEL", "S")] + ([op(0, "SADD", "S", *ms)] if ms else []) + [op(0, "SPOP", "S", cnt), op(0, "SMEMBERS", "S"), op(0, "SCARD", "S"), op(0, "EXISTS", "S")]
        steps += [op(0, "DEL", "S")] + ([op(0, "SADD", "S", *ms)] if ms else []) + [op(0, "SPOP", "S"), op(0, "SMEMBERS", "S")]
        for m in ms[:2] + ["zz"]:
            steps += [op(0, "DEL", "S", "T")] + ([op(0, "SADD", "S", *ms)] if ms else []) + [op(0, "SADD", "T", "m0"), op(0, "SMOVE", "S", "T", m),
                                                                                            op(0, "SMEMBERS", "S"), op(0, "SMEMBERS", "T"), op(0, "SREM", "S", *(ms or ["q"])), op(0, "EXISTS", "S")]
    cases.append(("c03-spop-smove", "mem", steps))
    # hashes: every combination of (field present with empty / non-empty value, absent) x command
    steps = []
    for state in (None, "", "v", "10", "x"):
        for cmd in (["HSETNX", "h", "f", "n"], ["HSET", "h", "f", "n"], ["HSET", "h", "f", ""], ["HSET", "h", "f", "n", "g", "2"], ["HGET", "h", "f"],
                    ["HDEL", "h", "f"], ["HDEL", "h", "f", "g"], ["HEXISTS", "h", "f"], ["HSTRLEN", "h", "f"], ["HINCRBY", "h", "f", "5"],
                    ["HINCRBYFLOAT", "h", "f", "2"], ["HMGET", "h", "f", "g"], ["HMSET", "h", "f", "1", "f", "2"], ["HCLEAR", "h"]):
            steps.append(op(0, "DEL", "h"))
            if state is not None:
                steps.append(op(0, "HSET", "h", "f", state))
            steps += [op(0, *cmd), op(0, "HGETALL", "h"), op(0, "HLEN", "h"), op(0, "HGET", "h", "f"), op(0, "EXISTS", "h"), op(0, "HKEYS", "h"), op(0, "HVALS", "h")]
    cases.append(("c03-hash", "mem", steps))
    return cases


# ---- C04: query sweep over small sorted sets ----------------------------------------------------
def c04(tier):
    cases = []
    zsets = [
        [],
        [("1", "a")],
        [("1", "a"), ("2", "b"), ("3", "c")],
        [("2", "b"), ("2", "a"), ("2", "c"), ("1", "")],          # ties, empty member
        [("-inf", "lo"), ("0", "z"), ("inf", "hi"), ("0", "a"), ("5", "m")],
    ]
    bounds = ["-inf", "0", "1", "2", "3", "+inf"]
    if tier != "thorough":
        bounds = ["-inf", "1", "2", "+inf"]
    for zi, z in enumerate(zsets):
        n = len(z)
        steps = []
        if z:
            steps.append(op(0, "ZADD", "z", *[w for pair in z for w in pair]))
        rng = range(-n - 2, n + 3)
        for s in rng:
            for t in rng:
                steps += [op(0, "ZRANGE", "z", s, t), op(0, "ZREVRANGE", "z", s, t)]
        steps += [op(0, "ZRANGE", "z", 0, -1, "WITHSCORES"), op(0, "ZREVRANGE", "z", 0, -1, "WITHSCORES"), op(0, "ZCARD", "z")]
        for sc, m in z + [("9", "nosuch")]:
            steps += [op(0, "ZRANK", "z", m), op(0, "ZREVRANK", "z", m)]
            steps += [op(0, "ZSCORE", "z", m), op(0, "ZEXISTS", "z", m)]
        for lo in bounds:
            for hi in bounds:
                for lx in ("", "("):
                    for hx in ("", "("):
                        if (lx and lo.endswith("inf")) or (hx and hi.endswith("inf")):
                            continue
                        steps += [op(0, "ZRANGEBYSCORE", "z", lx + lo, hx + hi), op(0, "ZREVRANGEBYSCORE", "z", hx + hi, lx + lo),
                                  op(0, "ZCOUNT", "z", lx + lo, hx + hi),
                                  op(0, "ZRANGEBYSCORE", "z", lx + lo, hx + hi, "LIMIT", 1, 2),
                                  op(0, "ZREVRANGEBYSCORE", "z", hx + hi, lx + lo, "LIMIT", 0, 1, "WITHSCORES"),
                                  op(0, "ZRANGE", "z", lx + lo, hx + hi, "BYSCORE"), op(0, "ZRANGE", "z", hx + hi, lx + lo, "BYSCORE", "REV")]
        cases.append(("c04-query-%d" % zi, "mem", steps))
        # removals by rank / score on a fresh copy each time
        steps = []
        if z:
            add = [op(0, "DEL", "z"), op(0, "ZADD", "z", *[w for pair in z for w in pair])]
            for s in rng:
                for t in rng:
                    steps += add + [op(0, "ZREMRANGEBYRANK", "z", s, t), op(0, "ZRANGE", "z", 0, -1, "WITHSCORES"), op(0, "ZCARD", "z")]
            for lo in bounds:
                for hi in bounds:
                    steps += add + [op(0, "ZREMRANGEBYSCORE", "z", lo, hi), op(0, "ZRANGE", "z", 0, -1, "WITHSCORES")]
                    steps += add + [op(0, "ZREMRANGEBYSCORE", "z", "(" + lo if not lo.endswith("inf") else lo, hi), op(0, "ZRANGE", "z", 0, -1)]
            cases.append(("c04-remove-%d" % zi, "mem", steps))
    # a set large enough for several skiplist levels, with the empty member at either end and in the middle of a tie
    for ci, (esc, others) in enumerate((("0", 1), ("100", 1), ("20", 20))):
        steps = [op(0, "ZADD", "z", str(others if others > 1 else i + 1), "m%02d" % i) for i in range(48)]
        steps += [op(0, "ZADD", "z", esc, "")]
        steps += [op(0, "ZRANK", "z", ""), op(0, "ZREVRANK", "z", ""), op(0, "ZRANK", "z", "", "WITHSCORES"), op(0, "ZSCORE", "z", ""),
                  op(0, "ZRANK", "z", "m00"), op(0, "ZREVRANK", "z", "m47"), op(0, "ZRANK", "z", "m24"), op(0, "ZCARD", "z"),
                  op(0, "ZREM", "z", ""), op(0, "ZRANK", "z", ""), op(0, "ZRANK", "z", "m00"), op(0, "ZCARD", "z")]
        cases.append(("c04-levels-%d" % ci, "mem", steps))
    # updates: every order of three ZADD/ZINCRBY/ZREM on two members with ties
    acts = [["ZADD", "z", "1", "a"], ["ZADD", "z", "1", "b"], ["ZADD", "z", "2", "a"], ["ZINCRBY", "z", "1", "a"], ["ZINCRBY", "z", "-1", "b"],
            ["ZREM", "z", "a"], ["ZADD", "z", "XX", "5", "a"], ["ZADD", "z", "NX", "5", "c"], ["ZADD", "z", "GT", "0", "a"], ["ZADD", "z", "LT", "0", "b"]]
    steps = []
    seqs = list(itertools.product(range(len(acts)), repeat=3))
    if tier != "thorough":
        seqs = seqs[::7]
    for seq in seqs:
        steps.append(op(0, "DEL", "z"))
        for i in seq:
            steps.append(op(0, *acts[i]))
        steps += [op(0, "ZRANGE", "z", 0, -1, "WITHSCORES"), op(0, "ZRANK", "z", "a"), op(0, "ZSCORE", "z", "a"), op(0, "ZCARD", "z")]
    cases.append(("c04-updates", "mem", steps))
    return cases


# ---- C01: small exhaustive sweeps of the range / bit commands -------------------------------------
def c01(tier):
    cases = []
    steps = []
    for v in ["", "a", "ab\xff", "hello"]:
        n = len(v)
        steps += [op(0, "DEL", "s")] + ([op(0, "SET", "s", v)] if True else [])
        rng = range(-n - 2, n + 3)
        for s in rng:
            for t in rng:
                steps += [op(0, "GETRANGE", "s", s, t), op(0, "BITCOUNT", "s", s, t)]
                if n <= 2:
                    steps.append(op(0, "BITCOUNT", "s", s, t, "BIT"))
        steps += [op(0, "BITCOUNT", "s"), op(0, "STRLEN", "s")]
        for big in ("4611686018427387904", "9223372036854775807"):
            steps += [op(0, "GETBIT", "s", big), op(0, "GETRANGE", "s", big, big), op(0, "GETRANGE", "s", "0", big), op(0, "BITCOUNT", "s", "0", big)]
        for off in range(0, 8 * n + 10, 3):
            steps.append(op(0, "GETBIT", "s", off))
    cases.append(("c01-ranges", "mem", steps))
    steps = []
    for v in [None, "", "ab", "hello"]:
        for off in [0, 1, 2, 5, 6]:
            for d in ["", "X", "XYZ"]:
                steps += [op(0, "DEL", "s")] + ([op(0, "SET", "s", v)] if v is not None else []) + [op(0, "SETRANGE", "s", off, d), op(0, "GET", "s"), op(0, "MGET", "s"), op(0, "EXISTS", "s")]
        for off in [0, 1, 7, 8, 9, 23]:
            for bit in [0, 1]:
                steps += [op(0, "DEL", "s")] + ([op(0, "SET", "s", v)] if v is not None else []) + [op(0, "SETBIT", "s", off, bit), op(0, "GET", "s"), op(0, "GETBIT", "s", off)]
    cases.append(("c01-setrange-setbit", "mem", steps))
    steps = []
    nums = [None, "0", "-1", "41", "9223372036854775807", "-9223372036854775808", "9223372036854775806", "abc", "", " 1", "1.0", "+5", "007"]
    for v in nums:
        for cmd in (["INCR", "n"], ["DECR", "n"], ["INCRBY", "n", "1"], ["INCRBY", "n", "-1"], ["DECRBY", "n", "1"],
                    ["INCRBY", "n", "9223372036854775807"], ["DECRBY", "n", "9223372036854775807"], ["APPEND", "n", "0"], ["GETSET", "n", "5"],
                    ["SETNX", "n", "5"], ["SET", "n", "5", "NX"], ["SET", "n", "5", "XX"], ["SET", "n", "5", "GET"], ["SET", "n", "5", "XX", "GET"], ["MGET", "n", "n"]):
            steps += [op(0, "DEL", "n")] + ([op(0, "SET", "n", v)] if v is not None else []) + [op(0, *cmd), op(0, "GET", "n"), op(0, "EXISTS", "n"), op(0, "TYPE", "n")]
    cases.append(("c01-counters", "mem", steps))
    # a write after the deadline passed (record not yet collected) creates a fresh key
    steps = []
    for cmd in (["INCR", "e"], ["APPEND", "e", "x"], ["SETRANGE", "e", "1", "y"], ["SETBIT", "e", "7", "1"], ["SET", "e", "w"], ["SETNX", "e", "w"],
                ["GETSET", "e", "w"], ["INCRBYFLOAT", "e", "1"], ["MSET", "e", "w"], ["SET", "e", "w", "KEEPTTL"], ["SET", "e", "w", "XX"], ["DECRBY", "e", "2"]):
        steps += [op(0, "SET", "e", "10", "PX", "1"), x("SLEEP", "3"), op(0, *cmd), op(0, "GET", "e"), op(0, "PTTL", "e"), op(0, "EXISTS", "e"), op(0, "DEL", "e")]
    cases.append(("c01-expired-recreate", "mem", steps))
    cases.append(("c01-expired-recreate-peb", "peb", steps))
    # keyspace commands over every type
    mk = {"str": ["SET", "k", "v"], "list": ["RPUSH", "k", "a"], "hash": ["HSET", "k", "f", "v"], "set": ["SADD", "k", "a"], "zset": ["ZADD", "k", "1", "a"]}
    steps = []
    for t1 in [None] + list(mk):
        for t2 in [None] + list(mk):
            pre = [op(0, "FLUSHDB")]
            if t1:
                pre.append(op(0, *mk[t1]))
            if t2:
                pre.append(op(0, *[w.replace("k", "j") if w == "k" else w for w in mk[t2]]))
            for cmd in (["RENAME", "k", "j"], ["RENAMENX", "k", "j"], ["RENAME", "k", "k"], ["RENAMENX", "k", "k"], ["DEL", "k", "j"], ["DEL", "k", "k"], ["EXISTS", "k", "j", "k"], ["SET", "k", "new"], ["GET", "k"],
                        ["APPEND", "k", "x"], ["STRLEN", "k"], ["INCR", "k"], ["GETRANGE", "k", "0", "1"], ["MSET", "k", "1", "j", "2"]):
                steps += pre + [op(0, *cmd), op(0, "TYPE", "k"), op(0, "TYPE", "j"), op(0, "KEYS", "*"), op(0, "DBSIZE")]
    cases.append(("c01-keyspace", "mem", steps))
    return cases


# ---- C12: every writing command on a clean (flushed, unmodified) record, then eviction -----------------
WRITERS = [
    ("str", ["SET", "k", "v"]), ("str", ["SET", "k", "v", "XX"]), ("str", ["SET", "k", "v", "KEEPTTL"]), ("str", ["GETSET", "k", "v"]),
    ("str", ["APPEND", "k", "x"]), ("str", ["SETRANGE", "k", "1", "z"]),
    # writers that look like no-ops but still change the value (zero padding past the end)
    ("str", ["SETBIT", "k", "100", "0"]), ("str", ["SETRANGE", "k", "9", "z"]), ("str", ["INCR", "k"]), ("str", ["DECR", "k"]), ("str", ["INCRBY", "k", "5"]),
    ("str", ["DECRBY", "k", "5"]), ("str", ["INCRBYFLOAT", "k", "2"]), ("str", ["SETBIT", "k", "1", "1"]), ("str", ["MSET", "k", "v"]),
    ("str", ["RENAME", "o", "k"]), ("str", ["RENAME", "k", "k2"]), ("str", ["RENAMENX", "k", "k3"]),
    ("list", ["LPUSH", "k", "x"]), ("list", ["RPUSH", "k", "x"]), ("list", ["LPUSHX", "k", "x"]), ("list", ["RPUSHX", "k", "x"]), ("list", ["LPOP", "k"]),
    ("list", ["RPOP", "k"]), ("list", ["LINSERT", "k", "BEFORE", "b", "x"]), ("list", ["LSET", "k", "0", "x"]), ("list", ["LREM", "k", "0", "a"]),
    ("list", ["LTRIM", "k", "0", "0"]), ("list", ["RPOPLPUSH", "k", "o2"]), ("list", ["RPOPLPUSH", "l2", "k"]), ("list", ["LPOPRPUSH", "l2", "k"]),
    ("hash", ["HSET", "k", "g", "2"]), ("hash", ["HSET", "k", "f", "2"]), ("hash", ["HSET", "k", "f", "1"]), ("hash", ["HMSET", "k", "f", "2"]),
    ("hash", ["HSETNX", "k", "g", "2"]), ("hash", ["HDEL", "k", "f"]), ("hash", ["HINCRBY", "k", "f", "1"]), ("hash", ["HINCRBYFLOAT", "k", "f", "1"]),
    ("set", ["SADD", "k", "z"]), ("set", ["SADD", "k", "a"]), ("set", ["SREM", "k", "a"]), ("set", ["SPOP", "k"]), ("set", ["SMOVE", "k", "o3", "a"]),
    ("set", ["SMOVE", "s2", "k", "q"]), ("set", ["SINTERSTORE", "k", "s2", "s2"]), ("set", ["SUNIONSTORE", "k", "s2", "s2"]),
    ("zset", ["ZADD", "k", "5", "z"]), ("zset", ["ZADD", "k", "7", "a"]), ("zset", ["ZADD", "k", "1", "a"]), ("zset", ["ZINCRBY", "k", "1", "a"]),
    ("zset", ["ZREM", "k", "a"]), ("zset", ["ZREMRANGEBYRANK", "k", "0", "1"]), ("zset", ["ZREMRANGEBYSCORE", "k", "0", "5"]),
    ("zset", ["ZUNIONSTORE", "k", "1", "z2"]), ("zset", ["ZINTERSTORE", "k", "1", "z2"]),
    ("zset", ["GEOADD", "k", "10", "10", "g1"]), ("zset", ["GEOADD", "k", "XX", "11", "11", "a"]),
    ("str", ["EXPIRE", "k", "1000"]), ("str", ["EXPIRE", "k", "1000", "NX"]), ("str", ["EXPIRE", "k", "1000", "GT"]), ("str", ["EXPIREAT", "k", "4102444800"]),
    ("str", ["EXPIREAT", "k", "4102444800", "GT"]), ("str", ["PERSIST", "k"]), ("str", ["SETEX", "k", "1000", "v"]), ("str", ["SET", "k", "v", "EX", "1000"]),
]
SETUP = {
    "str": [["SET", "k", "10"]], "list": [["RPUSH", "k", "a", "b", "c"]], "hash": [["HSET", "k", "f", "1"]],
    "set": [["SADD", "k", "a", "b"]], "zset": [["ZADD", "k", "1", "a", "2", "b"]],
}


def c12(tier):
    cases = []
    for be in ("peb", "mem"):
        for i, (ty, w) in enumerate(WRITERS):
            steps = [op(0, "SET", "o", "other"), op(0, "RPUSH", "l2", "q"), op(0, "SADD", "s2", "q", "a"), op(0, "ZADD", "z2", "3", "q")]
            steps += [op(0, *c) for c in SETUP[ty]]
            # make every record clean and cold once, then warm again by the command itself
            steps += [x("GC"), op(0, "TYPE", "k"), x("GC"), op(0, *w), x("GC"), x("GC"), x("GC"), x("GC"), x("PROBE")]
            cases.append(("c12-writer-%s-%d-%s" % (be, i, w[0]), be, steps))
        # deadline changes on a record that carries a deadline and is cold (its only copy sits in storage under (deadline, name))
        ttlw = [["PERSIST", "k"], ["EXPIRE", "k", "2000"], ["PEXPIRE", "k", "2000000"], ["EXPIREAT", "k", "4102444800"], ["EXPIRE", "k", "2000", "GT"],
                ["EXPIRE", "k", "500", "LT"], ["EXPIRE", "k", "2000", "XX"], ["SET", "k", "w", "KEEPTTL"], ["APPEND", "k", "x"], ["GETSET", "k", "w"]]
        for i, w in enumerate(ttlw):
            for ty, mk in (("str", ["SET", "k", "10", "EX", "1000"]), ("list", None)):
                if ty == "list" and w[0] in ("SET", "APPEND", "GETSET"):
                    continue
                steps = [op(0, "SET", "o", "other")]
                steps += [op(0, *mk)] if mk else [op(0, "RPUSH", "k", "a", "b"), op(0, "EXPIRE", "k", "1000")]
                steps += [x("GC"), x("GC"), x("GC"), x("GC"), op(0, *w), x("PROBE"), x("GC"), x("GC"), x("GC"), x("GC"), x("PROBE"),
                          op(0, "EXISTS", "k"), op(0, "TYPE", "k")]   # no TTL reply: the two runs compared by the judge are made at different times
                cases.append(("c12-cold-ttl-%s-%d-%s-%s" % (be, i, w[0], ty), be, steps))
    return cases


def c11(tier):
    """every writing command between two close/open cycles"""
    cases = []
    for be in ("peb", "mem"):
        for i, (ty, w) in enumerate(WRITERS):
            steps = [op(0, "SET", "o", "other"), op(0, "RPUSH", "l2", "q"), op(0, "SADD", "s2", "q", "a"), op(0, "ZADD", "z2", "3", "q")]
            steps += [op(0, *c) for c in SETUP[ty]]
            steps += [x("PROBE"), x("REOPEN"), x("PROBE"), op(0, *w), x("PROBE"), x("REOPEN"), x("PROBE")]
            cases.append(("c11-writer-%s-%d-%s" % (be, i, w[0]), be, steps))
        # a key that was stored without a deadline, then given one, stored again, and whose deadline passes before Close
        for i, (mk, exp) in enumerate(((["SET", "k", "v"], ["PEXPIRE", "k", "40"]), (["RPUSH", "k", "a", "b"], ["PEXPIRE", "k", "40"]),
                                       (["HSET", "k", "f", "1"], ["PEXPIRE", "k", "40"]), (["SET", "k", "v"], ["SET", "k", "w", "PX", "40"]))):
            steps = [op(0, "SET", "o", "other"), op(0, *mk), x("FLUSH"), x("PROBE"), x("REOPEN"), x("PROBE"), op(0, *exp), x("FLUSH"), x("SLEEP", "70"),
                     x("PROBE"), x("REOPEN"), x("PROBE"), op(0, "EXISTS", "k"), op(0, "TYPE", "k")]
            cases.append(("c11-deadline-passes-%s-%d" % (be, i), be, steps))
        # a stored key overwritten by a version whose deadline has already passed (listed finding REOPEN/expired-alive)
        steps = [op(0, "SET", "o", "other"), op(0, "SET", "k", "v"), x("FLUSH"), op(0, "SET", "k", "w", "EXAT", "1"), x("SLEEP", "30"),
                 x("PROBE"), x("REOPEN"), x("PROBE"), op(0, "GET", "k")]
        cases.append(("c11-expired-version-%s" % be, be, steps))
    return cases


def c09(tier):
    """every writing command against a watched key; several watchers of one key in every flag state"""
    cases = []
    pre = [op(1, "SET", "o", "other"), op(1, "RPUSH", "l2", "q"), op(1, "SADD", "s2", "q", "a"), op(1, "ZADD", "z2", "3", "q")]
    for i, (ty, w) in enumerate(WRITERS):
        steps = list(pre) + [op(1, *c) for c in SETUP[ty]]
        steps += [op(0, "WATCH", "k"), op(1, *w), op(0, "MULTI"), op(0, "SET", "done", "1"), op(0, "EXEC"), op(0, "GET", "done")]
        cases.append(("c09-writer-%d-%s" % (i, w[0]), "mem", steps))
    # watchers 2, 3, 4 of the same key registered in that order; writes by conn 1 in between
    import itertools as it
    for n, order in enumerate(it.permutations([2, 3, 4])):
        steps = [op(1, "SET", "k", "0")]
        steps += [op(order[0], "WATCH", "k"), op(1, "SET", "k", "1"), op(order[1], "WATCH", "k"), op(1, "APPEND", "k", "x"),
                  op(order[2], "WATCH", "k"), op(1, "INCR", "n"), op(1, "SET", "k", "2")]
        for c in order:
            steps += [op(c, "MULTI"), op(c, "SET", "done%d" % c, "1"), op(c, "EXEC")]
        steps += [op(1, "KEYS", "*")]
        cases.append(("c09-watchers-%d" % n, "mem", steps))
    # an empty transaction still has to notice that a watched key changed (and a clean one replies *0)
    for w in (["SET", "k", "v"], ["MSET", "k", "v"], ["APPEND", "k", "x"], ["INCR", "k"]):
        cases.append(("c09-empty-queue-%s" % w[0], "mem", [op(1, "SET", "k", "1"), op(0, "WATCH", "k"), op(0, "MULTI"), op(2, *w), op(0, "EXEC"), op(0, "GET", "k")]))
    cases.append(("c09-empty-queue-clean", "mem", [op(1, "SET", "k", "1"), op(0, "WATCH", "k"), op(0, "MULTI"), op(2, "GET", "k"), op(0, "EXEC")]))
    # a watcher that already ran its transaction (flags cleared) next to fresh ones
    steps = [op(1, "SET", "k", "0"), op(2, "WATCH", "k"), op(3, "WATCH", "k"), op(1, "SET", "k", "1"), op(2, "MULTI"), op(2, "GET", "k"), op(2, "EXEC"),
             op(2, "WATCH", "k"), op(4, "WATCH", "k"), op(1, "SET", "k", "2"),
             op(3, "MULTI"), op(3, "GET", "k"), op(3, "EXEC"), op(2, "MULTI"), op(2, "GET", "k"), op(2, "EXEC"), op(4, "MULTI"), op(4, "GET", "k"), op(4, "EXEC")]
    cases.append(("c09-rewatch", "mem", steps))
    # a writer that removes the LAST element (the key disappears with it) inside the watch window
    last = [("list", [["RPUSH", "k", "a"]], ["LPOP", "k"]), ("list", [["RPUSH", "k", "a"]], ["RPOP", "k"]),
            ("list", [["RPUSH", "k", "a"]], ["LREM", "k", "0", "a"]), ("list", [["RPUSH", "k", "a"]], ["RPOPLPUSH", "k", "o2"]),
            ("list", [["RPUSH", "k", "a"]], ["LPOPRPUSH", "k", "o2"]), ("list", [["RPUSH", "k", "a", "b"]], ["LPOP", "k", "2"]),
            ("set", [["SADD", "k", "a"]], ["SREM", "k", "a"]), ("set", [["SADD", "k", "a"]], ["SPOP", "k"]), ("set", [["SADD", "k", "a"]], ["SMOVE", "k", "o3", "a"]),
            ("hash", [["HSET", "k", "f", "1"]], ["HDEL", "k", "f"]), ("zset", [["ZADD", "k", "1", "a"]], ["ZREM", "k", "a"]),
            ("zset", [["ZADD", "k", "1", "a"]], ["ZREMRANGEBYRANK", "k", "0", "0"]), ("zset", [["ZADD", "k", "1", "a"]], ["ZREMRANGEBYSCORE", "k", "0", "5"])]
    for i, (ty, setup, w) in enumerate(last):
        steps = list(pre) + [op(1, *c) for c in setup]
        steps += [op(0, "WATCH", "k"), op(1, *w), op(1, "EXISTS", "k"), op(0, "MULTI"), op(0, "SET", "done", "1"), op(0, "EXEC"), op(0, "GET", "done")]
        cases.append(("c09-last-element-%d-%s" % (i, w[0]), "mem", steps))
    # WATCH of a key that is already watched (and already changed) must not forget the change
    for i, again in enumerate((["WATCH", "k"], ["WATCH", "k", "j"], ["WATCH", "j", "k"], ["WATCH", "k", "k"])):
        steps = [op(1, "SET", "k", "0"), op(1, "SET", "j", "0"), op(0, "WATCH", "k"), op(1, "SET", "k", "1"), op(0, *again),
                 op(0, "MULTI"), op(0, "SET", "done", "1"), op(0, "EXEC"), op(0, "GET", "done")]
        cases.append(("c09-watch-again-%d" % i, "mem", steps))
    steps = [op(1, "SET", "k", "0"), op(0, "WATCH", "k", "k"), op(1, "SET", "k", "1"), op(0, "MULTI"), op(0, "SET", "done", "1"), op(0, "EXEC"), op(0, "GET", "done")]
    cases.append(("c09-watch-twice-in-one", "mem", steps))
    # C08: a command that fails while it is being queued aborts the transaction - also when the failure is a recovered
    # panic in the argument parsing of the handler (before execCommand), not an ordinary error reply
    bad = [["SCAN", "0", "COUNT"], ["SCAN", "0", "MATCH"], ["ZRANGEBYSCORE", "z", "0", "1", "LIMIT", "0"], ["ZUNIONSTORE", "d", "5", "a"],
           ["GET"], ["NOSUCHCOMMAND", "x"], ["INCRBY", "n", "notanumber"], ["LRANGE", "l"], ["ZADD", "z", "nan", "m"], ["SET", "k"], ["EXPIRE", "k", "x"]]
    for i, b in enumerate(bad):
        for pos in (0, 1, 2):
            q = [op(0, "SET", "a0", "1"), op(0, "SET", "b0", "2")]
            q.insert(pos, op(0, *b))
            steps = [op(1, "SET", "seen", "0"), op(0, "MULTI")] + q + [op(0, "EXEC"), op(0, "GET", "a0"), op(0, "GET", "b0"), op(0, "PING")]
            cases.append(("c08-queue-time-failure-%d-%d-%s" % (i, pos, b[0]), "mem", steps))
    # a queued command that fails when EXEC runs it does not stop the queue: the commands after it still run, every reply is there
    for i, (setup, failing) in enumerate(((["SET", "s", "str"], ["LPUSH", "s", "x"]), (["SET", "s", "str"], ["HSET", "s", "f", "v"]), (["SET", "s", "str"], ["SADD", "s", "m"]),
                                          (["SET", "s", "str"], ["ZADD", "s", "1", "m"]), (["SET", "s", "str"], ["RPOP", "s"]), (["RPUSH", "s", "a"], ["INCR", "s"]),
                                          (["RPUSH", "s", "a"], ["GET", "s"]))):
        for pos in (0, 1, 2):
            q = [op(0, "INCR", "cnt"), op(0, "INCR", "cnt")]
            q.insert(pos, op(0, *failing))
            steps = [op(1, *setup), op(0, "MULTI")] + q + [op(0, "EXEC"), op(0, "GET", "cnt"), op(0, "ECHO", "marker")]
            cases.append(("c08-run-time-failure-%d-%d-%s" % (i, pos, failing[0]), "mem", steps))
    return cases


GENERATORS = {"C09": c09, "C08": c09, "C01": c01, "C02": c02, "C03": c03, "C04": c04, "C11": c11, "C12": c12}


def write_for(pid, tier, path):
    """-> number of cases written (0 if the property has no generated corpus)"""
    g = GENERATORS.get(pid)
    if not g:
        return 0
    cases = g(tier)
    with open(path, "w") as f:
        for cid, be, steps in cases:
            f.write("CASE %s %s\n" % (cid, be))
            f.write("\n".join(steps) + "\n")
    return len(cases)
