"""C20: the change feed, through the wire encoding, reproduces the primary on a replica.

The harness attaches a "*" watcher and a pattern watcher to the primary (X FEED), waits after every
command until the notification goroutines have ended, sends every record through Op.Encode /
DecodeOp / ApplyPatch to a replica, and prints the records and the replica's keyspace after every
step.  The extracted Coq model predicts which records (type, key) every command emits (trace mode,
kind=records); this module judges the property on the implementation's own dumps:
  <CMD>/replica-missing|extra|type|value|deadline   the command made primary and replica differ on a key
  <CMD>/unappliable:<Op>    a record the replica could not decode or apply
  <CMD>/record-on-failure   a command that replied an error emitted records
  FEED/filter               the pattern watcher received a record for a non-matching key, or missed one
  FEED/reordered            records of back-to-back commands on one key arrived out of order
"""
import json
import os
from . import common as C
from . import tracecheck as T
from . import persist as PS
from . import corpora
from .corpora import op, x, lit
from .scaniter import glob_match, tokstr
from .persistjudge import value_norm

PATTERNS = ["k1", "a*", "?2"]


def parse_trace(path):
    cases = []
    cur = step = None
    with open(path) as f:
        for line in f:
            line = line.rstrip("\n")
            if line.startswith("CASE "):
                t = line.split()
                cur = {"id": t[1], "backend": t[2], "steps": []}
                cases.append(cur)
                step = None
            elif cur is not None and (line.startswith("OP ") or line.startswith("X ")):
                lhs, _, rhs = line.partition(" => ")
                t = lhs.split()
                if t[0] == "OP":
                    n = int(t[3])
                    step = {"line": " ".join(t[:-2]), "name": t[2].upper(), "args": t[4:4 + n] if n else [], "reply": rhs.split(), "x": None}
                else:
                    step = {"line": " ".join(t[:-2]), "name": "X:" + t[1], "args": [], "reply": rhs.split(), "x": t[1]}
                step.update({"t0": int(t[-2]), "t1": int(t[-1]), "keys": {}, "rkeys": None, "recs": None, "recs2": [], "rerr": [], "burst": None, "quiet": True})
                cur["steps"].append(step)
            elif step is not None:
                if line.startswith("K "):
                    t = line.split()
                    step["keys"][t[1]] = (int(t[2]), " ".join(t[7:]))
                elif line.startswith("RK "):
                    t = line.split()
                    step["rkeys"][t[1]] = (int(t[2]), " ".join(t[4:]))
                elif line.startswith("RDUMP "):
                    step["rkeys"] = {}
                    t = line.split()
                    step["t_applied"] = int(t[2]) if len(t) > 2 else step["t1"]
                elif line.startswith("REC "):
                    step["recs"] = []
                    step["quiet"] = line.split()[3] == "quiet"
                elif line.startswith("R "):
                    t = line.split()
                    step["recs"].append((t[1], t[2], " ".join(t[3:])))
                elif line.startswith("R2 "):
                    t = line.split()
                    step["recs2"].append((t[1], t[2]))
                elif line.startswith("RERR "):
                    t = line.split()
                    step["rerr"].append((t[1], " ".join(t[2:])))
                elif line.startswith("BURST "):
                    step["burst"] = line.split()
    return cases


def logical(keys, lo, hi, memory=None):
    """name -> (deadline or None when it falls into the clock bracket, type letter, normalised value)"""
    out = {}
    for k, (exp, val) in keys.items():
        if exp != 0 and exp <= hi + 2:
            if exp >= lo - 2:
                out[k] = None     # may or may not have expired: not judged
            continue
        if val == "cold" and memory is not None:
            val = memory.get(k, "cold")
        t = val.split()
        # an empty collection left behind by a command is not a key of the logical state
        if (t[:2] in (["h", "0"], ["S", "0"])) or t[:3] == ["l", "0", "0"] or (t and t[0] == "z" and len(t) > 2 and t[2] == "0"):
            continue
        out[k] = (exp, t[0] if t else "?", value_norm(val))
    return out


def judge_case(c):
    out = []
    prev_diff = set()
    prev_kind = {}
    unjudged = set()
    last_pri = prev_pri = None
    diverged = False    # once the replica differs it is no longer the replica of the property: stop judging the case
    memory = {}
    attached = False
    raced = set()    # keys for which one command emitted several records: they are delivered by racing goroutines, and a
                     # replica that applied them in the other order (Expire before Set: the deadline is dropped) stays wrong
    for i, s in enumerate(c["steps"]):
        stepno = i + 1
        ks_ = [r[1] for r in (s.get("recs") or [])]
        raced |= set(k for k in ks_ if ks_.count(k) >= 2)
        for k, (exp, val) in s["keys"].items():
            if val != "cold":
                memory[k] = val
        if s["x"] == "FEED":
            attached = True
        if not attached or s["rkeys"] is None:
            if s["burst"] and s["burst"][3] == "REORDERED":
                diverged = True
                out.append({"case": c["id"], "step": stepno, "signature": "FEED/reordered",
                            "text": "%s back-to-back LPUSH on one key: the watcher saw %s" % (s["burst"][1], s["burst"][4])})
            continue
        cmd = s["name"]
        prev_pri = last_pri
        # the replica applies the records after the primary has replied: a deadline that passes anywhere between
        # the start of the command and the end of the application is "expired or not" depending on the instant
        hi = max(s["t1"], s.get("t_applied", s["t1"]))
        pri = logical(s["keys"], s["t0"], hi, memory)
        rep = logical(s["rkeys"], s["t0"], hi)
        if i > 0:
            # ... also when the deadline was removed or changed by this very step (PERSIST racing the deadline)
            for src in (c["steps"][i - 1]["keys"], c["steps"][i - 1].get("rkeys") or {}):
                for k, (exp, _) in src.items():
                    if exp != 0 and s["t0"] - 2 <= exp <= hi + 2:
                        unjudged.add(k)
        diff = {}
        for k in set(pri) | set(rep):
            a, b = pri.get(k, "absent"), rep.get(k, "absent")
            if a is None or b is None:
                unjudged.add(k)     # a deadline inside the clock bracket: this key is not judged any more in this case
            if k in unjudged:
                continue
            if a == "absent" and b != "absent":
                diff[k] = ("extra", "replica has %s" % (b,))
            elif b == "absent" and a != "absent":
                diff[k] = ("missing", "primary has %s" % (a,))
            elif a != b:
                if a[1] != b[1]:
                    diff[k] = ("type", "primary %s replica %s" % (a[1], b[1]))
                elif a[2] != b[2]:
                    diff[k] = ("value", "primary %s replica %s" % (a[2][:60], b[2][:60]))
                else:
                    diff[k] = ("deadline", "primary %s replica %s" % (a[0], b[0]))
        if diverged:
            continue
        new = sorted(k for k in diff if k not in prev_diff or diff[k][0] != prev_kind.get(k))
        if s["rerr"] and s["x"] is None:
            diverged = True
            opn, msg = s["rerr"][0]
            sig = "%s/unappliable:%s" % (cmd, opn)
            keys_of_recs = [r[1] for r in (s["recs"] or [])]
            if any(keys_of_recs.count(k) >= 2 for k in keys_of_recs) or any(k in raced for k in keys_of_recs):
                # the records of one command are delivered by racing goroutines (e.g. Del then SAdd of SUNIONSTORE)
                sig = "FEED/reordered"
            elif "UTF-8" in msg:
                sig = "FEED/non-utf8-name:%s" % opn   # keys, fields and members are proto3 strings
            out.append({"case": c["id"], "step": stepno, "signature": sig, "text": msg[:200]})
            continue
        if new and s["x"] is None:
            diverged = True
            k = new[0]
            sig = "%s/replica-%s" % (cmd, diff[k][0])
            if len([r for r in (s["recs"] or []) if r[1] == k]) >= 2 or k in raced:
                # several records for the key from one command: they are delivered by racing goroutines
                sig = "FEED/reordered"
            out.append({"case": c["id"], "step": stepno, "signature": sig,
                        "text": "key %s: %s; records: %s" % (k, diff[k][1], " | ".join("%s %s" % (r[0], r[2]) for r in (s["recs"] or []))[:200] or "none")})
        prev_diff = set(diff)
        prev_kind = {k: v[0] for k, v in diff.items()}
        last_pri = pri
        if s["x"] is None and s["reply"] == ["E"] and s["recs"] and prev_pri is not None and prev_pri == pri:
            out.append({"case": c["id"], "step": stepno, "signature": "%s/record-on-failure" % cmd,
                        "text": " | ".join("%s %s" % (r[0], r[2]) for r in s["recs"])[:200]})
        if s["recs"] is not None:
            want = []
            for (opn, ktok, _) in s["recs"]:
                ks = tokstr(ktok)
                if ks is not None and any(glob_match(p, ks) for p in PATTERNS):
                    want.append((opn, ktok))
            if sorted(want) != sorted(s["recs2"]) and all(tokstr(r[1]) is not None for r in s["recs"]):
                out.append({"case": c["id"], "step": stepno, "signature": "FEED/filter",
                            "text": "pattern watcher %s received %s, expected %s" % (PATTERNS, s["recs2"][:4], want[:4])})
    return out


def directed(tier):
    """every writing command once, on a keyspace of every type, with the feed attached"""
    cases = []
    feed = x("FEED", ",".join(lit(p) for p in PATTERNS))
    for be in ("mem", "peb"):
        for i, (ty, w) in enumerate(corpora.WRITERS):
            steps = [feed, op(0, "SET", "o", "other"), op(0, "RPUSH", "l2", "q"), op(0, "SADD", "s2", "q", "a"), op(0, "ZADD", "z2", "3", "q")]
            steps += [op(0, *c) for c in corpora.SETUP[ty]]
            steps += [op(0, *w), op(0, "TYPE", "k")]
            cases.append(("c20-writer-%s-%d-%s" % (be, i, w[0]), be, steps))
        extra = [
            [["SET", "k", "v"], ["DEL", "k"]], [["SET", "k", "v"], ["UNLINK", "k"]], [["SET", "k", "v"], ["FLUSHDB"]], [["SET", "k", "v"], ["FLUSHALL"]],
            [["HSET", "k", "f", "v"], ["HCLEAR", "k"]], [["ZADD", "k", "1", "a"], ["ZCLEAR", "k"]],
            [["SADD", "k", "a", "b", "c"], ["SPOP", "k"]], [["SADD", "k", "a"], ["SMOVE", "k", "k2", "a"]],
            [["SADD", "k", "a", "b"], ["SADD", "k2", "b"], ["SDIFFSTORE", "d", "k", "k2"]], [["SADD", "k", "a"], ["SUNIONSTORE", "d", "k", "k"]],
            [["SADD", "k", "a"], ["SINTERSTORE", "d", "k", "k"]],
            [["SET", "k", "v", "EX", "100"]], [["SETEX", "k", "100", "v"]], [["SET", "k", "v"], ["EXPIRE", "k", "100"]], [["SET", "k", "v"], ["EXPIREAT", "k", "4102444800"]],
            [["SET", "k", "v", "EX", "100"], ["PERSIST", "k"]], [["SET", "k", "v", "EX", "100"], ["SET", "k", "w", "KEEPTTL"]],
            [["SET", "k", "v", "EX", "100"], ["SET", "k", "w"]], [["SET", "k", "v"], ["RENAMENX", "k", "k9"]], [["SET", "k", "v"], ["RENAME", "k", "k9"]],
            [["SET", "k", "\xff\xfe"]], [["SET", "\xff\xfe", "v"]], [["SADD", "k", "\xff"]], [["HSET", "k", "\xff", "v"]], [["ZADD", "k", "1", "\xff"]],
            [["RPUSH", "k", "a", "b", "c"], ["LPOP", "k", "2"]], [["RPUSH", "k", "a", "b", "c"], ["RPOP", "k", "2"]],
            [["HSET", "k", "f", "1", "g", "2"]], [["HMSET", "k", "f", "1", "g", "2"]], [["MSET", "k", "1", "k2", "2"]],
            [["ZADD", "k", "1", "a", "2", "b"]], [["ZADD", "k", "1", "a"], ["ZADD", "k", "XX", "CH", "5", "a"]], [["ZADD", "k", "1", "a"], ["ZADD", "k", "INCR", "5", "a"]],
            [["SET", "k", "v"], ["INCR", "k"]], [["SET", "k", "notanumber"], ["INCR", "k"]], [["SET", "k", "v"], ["LPUSH", "k", "x"]],
            [["SET", "k", "5"], ["SETRANGE", "k", "3", "xyz"]], [["SETBIT", "k", "9", "1"]], [["APPEND", "k", "abc"]], [["SET", "k", "v"], ["GETSET", "k", "w"]],
            [["SET", "k", "v", "PX", "1"], ["X:SLEEP", "3"], ["APPEND", "k", "x"]],
            [["SET", "k", "5", "EX", "100"], ["INCR", "k"]], [["SET", "k", "5", "EX", "100"], ["DECR", "k"]], [["SET", "k", "5", "EX", "100"], ["INCRBY", "k", "2"]],
            [["SET", "k", "5", "EX", "100"], ["DECRBY", "k", "2"]], [["SET", "k", "5", "EX", "100"], ["INCRBYFLOAT", "k", "2"]], [["SET", "k", "5", "EX", "100"], ["APPEND", "k", "2"]],
            [["SET", "k", "5", "EX", "100"], ["SETRANGE", "k", "0", "2"]], [["SET", "k", "5", "EX", "100"], ["SETBIT", "k", "1", "1"]], [["SET", "k", "5", "EX", "100"], ["GETSET", "k", "2"]],
            [["RPUSH", "k", "a"], ["SETEX", "k", "100", "v"]], [["RPUSH", "k", "a"], ["SET", "k", "v", "EX", "100"]],
            [["SET", "k", "a"], ["SADD", "k2", "b"], ["MSET", "k", "a", "k2", "v"]],
            [["ZADD", "k", "1", "a"], ["ZADD", "k2", "1", "b"], ["ZINTERSTORE", "k4", "2", "k", "k2"], ["RENAME", "k4", "k5"]],
            [["ZADD", "k", "1", "a"], ["ZADD", "k2", "1", "b"], ["ZINTERSTORE", "k4", "2", "k", "k2"], ["RENAMENX", "k4", "k5"]],
            [["ZADD", "k", "XX", "5", "a"]], [["ZADD", "k", "9", "a"], ["ZADD", "k", "GT", "2", "a"]], [["ZADD", "k", "1", "a"], ["ZADD", "k", "LT", "2", "a"]],
            [["ZADD", "k", "1", "a"], ["ZADD", "k", "NX", "2", "a"]], [["SET", "k", "v"], ["LSET", "k", "0", "x"]], [["RPUSH", "k", "a", "b"], ["LSET", "k", "7", "x"]],
            [["RPUSH", "k", "a", "b"], ["LPOPRPUSH", "k", "k"]], [["RPUSH", "k", "a", "b"], ["RPOPLPUSH", "k", "k"]], [["RPUSH", "k", "a"], ["LPOPRPUSH", "k", "k2"]],
            [["RPUSH", "k", "a"], ["LPOPRPUSH", "k", "k"]], [["RPUSH", "k", "a"], ["RPOPLPUSH", "k", "k"]],
            [["HSET", "a", "b", "0"], ["RPUSH", "k", "x", "y"], ["LPOPRPUSH", "k", "a"]], [["HSET", "a", "b", "0"], ["RPUSH", "k", "x", "y"], ["RPOPLPUSH", "k", "a"]],
            [["SADD", "k", "a", "b"], ["SMOVE", "k", "k", "a"]], [["SET", "k", "v"], ["RENAME", "k", "k"]],
            [["SET", "a", "v"], ["RPUSH", "k", "x"], ["LPOPRPUSH", "k", "a"]], [["SET", "a", "v"], ["RPUSH", "k", "x"], ["RPOPLPUSH", "k", "a"]],
            [["SADD", "k", "a", "b"], ["SPOP", "k", "5"]], [["HSET", "k", "f", "x"], ["HINCRBY", "k", "f", "1"]], [["HSET", "k", "f", "x"], ["HINCRBYFLOAT", "k", "f", "1"]], [["SET", "k", "v"], ["HINCRBYFLOAT", "k", "f", "1"]],
        ]
        for j, seq in enumerate(extra):
            steps = [feed]
            for w in seq:
                if w[0].startswith("X:"):
                    steps.append(x(w[0][2:], w[1]))
                else:
                    steps.append(op(0, *w))
            steps += [op(0, "KEYS", "*")]
            cases.append(("c20-extra-%s-%d-%s" % (be, j, seq[-1][0]), be, steps))
    # the small-scope sweeps of the data-type properties, with the feed attached (payload of every record)
    want = ("c02-dups-moves", "c02-ltrim-3", "c02-lset-pop-3", "c03-spop-smove", "c03-hash", "c04-remove-2", "c04-remove-3", "c04-updates", "c01-counters")
    for gen in (corpora.c02, corpora.c03, corpora.c04, corpora.c01):
        for cid, be, steps in gen(tier):
            if cid in want:
                cases.append(("c20-" + cid, be, [feed] + steps))
    # replays kept from earlier runs (corpus/C20/*.json: the "script" of a replay file, run again every time)
    import glob
    import json as _json
    for f in sorted(glob.glob(os.path.join(C.VERIF, "corpus", "C20", "*.json"))):
        rp = _json.load(open(f))
        cases.append(("c20-corpus-" + os.path.basename(f)[:-5], rp.get("backend", "mem"), rp["script"]))
    # order of delivery for back-to-back commands
    for r in range(3 if tier != "thorough" else 12):
        cases.append(("c20-burst-%d" % r, "mem", [feed, x("BURST", lit("burst") + ":40"), op(0, "LLEN", "burst")]))
    return cases


def run(tier, seed, replay=None):
    pid = "C20"
    out = C.Outcome(pid, tier, seed)
    prep, pf, bad = PS._common_start(pid)
    cov = PS._fill_cov(out, pid, pf, bad)
    out.assumptions = [
        "the harness waits after every command until the notification goroutines have ended (goroutine count back at its baseline), so records are applied in emission order; the order under back-to-back commands is observed separately (BURST)",
        "the replica is a second instance of the implementation on the in-memory backend; every record goes through Op.Encode, DecodeOp and ApplyPatch",
        "logical state = live keys with type, value and deadline (deadlines inside the clock bracket of the step are not judged)",
        "watcher patterns are literals with * and ?",
    ]
    if not pf["ok"] or bad:
        out.violation({"property": pid, "broken": "proof", "detail": pf["log"][-1500:], "forbidden": bad}, nofail=True)
    if not prep.ok and prep.failed_stage in ("go-build-harness", "ocaml-build", "coq_makefile"):
        out.violation({"property": pid, "broken": prep.failed_stage, "detail": prep.log[-3000:]}, nofail=True)
        return out.finish()
    known = {f["key"]: f for f in C.findings_for(pid) if "key" in f}
    d = C.scratch_dir("c20")
    stats = {"cases": 0, "steps_vs_model": 0, "model_diffs": 0, "records": 0, "steps_with_feed": 0, "bursts": 0, "not_quiet": 0}
    confirmed, dist, samples = {}, {}, []
    feedarg = ",".join(lit(p) for p in PATTERNS)
    try:
        batches = []
        if replay:
            rp = json.load(open(replay))
            script = os.path.join(d, "replay.script")
            T.write_script(script, [("replay", rp.get("backend", "mem"), rp["script"])])
            batches.append(("replay", dict(script=script)))
        else:
            script = os.path.join(d, "directed.script")
            T.write_script(script, directed(tier))
            batches.append(("directed", dict(script=script)))
            k = 12 if tier == "thorough" else 1
            for j, prof in enumerate(["mixed", "str", "list", "hash", "set", "zset", "expiry"]):
                batches.append(("feed-" + prof, dict(profile=prof, cases=10 * k, length=30, backend="mem" if j % 3 else "both", seed=seed * 1000 + 70 + j, feed=feedarg)))
        for tag, kw in batches:
            r = T.TraceRun(d, tag).run(**kw)
            if not r.ok:
                out.violation({"property": pid, "broken": "run " + tag, "detail": r.err}, nofail=True)
                continue
            stats["cases"] += r.msum[0]
            stats["steps_vs_model"] += r.msum[1]
            stats["model_diffs"] += r.msum[3]
            verdicts = []
            for c in parse_trace(r.tracefile):
                for s in c["steps"]:
                    if s["recs"] is not None:
                        stats["steps_with_feed"] += 1
                        stats["records"] += len(s["recs"])
                        for rr in s["recs"]:
                            dist[rr[0]] = dist.get(rr[0], 0) + 1
                        if not s["quiet"]:
                            stats["not_quiet"] += 1
                    if s["burst"]:
                        stats["bursts"] += 1
                verdicts += judge_case(c)
                if len(samples) < 3:
                    samples.append([T.step_text(s["line"]) for s in c["steps"][:10]])
            PS._report(out, pid, r, verdicts, known, confirmed, pf)
            os.remove(r.tracefile)
        for sig in sorted(confirmed):
            out.known_confirmed.append(known[sig])
        cov["evaluations"] = stats["steps_vs_model"]
        cov["distinct_nontrivial"] = stats["steps_with_feed"]
        cov["rule"] = ("evaluations = steps compared with the Coq model (reply, keyspace, storage and the change records emitted); distinct = steps after which the "
                       "replica fed through Encode/DecodeOp/ApplyPatch was compared with the primary key by key")
        cov["samples"] = samples
        cov["traces_validated_against_impl"] = stats["cases"]
        cov["input_distribution"] = dict(sorted(dist.items(), key=lambda kv: -kv[1])[:40])
        cov["stats"] = stats
        cov["exhaustive"] = False
    finally:
        C.sh(["rm", "-rf", d])
    return out.finish()
