#!/bin/bash
# Extract the Coq models and build the OCaml driver.  usage: build.sh <outdir>
set -e
HERE="$(cd "$(dirname "$0")" && pwd)"
OUT="${1:-$HERE/../.cache/ocaml}"
mkdir -p "$OUT"
rm -f "$OUT"/*.ml "$OUT"/*.mli "$OUT"/*.cm* "$OUT"/*.o
(cd "$OUT" && coqc -Q "$HERE/../coq" Nodis "$HERE/../coq/Extract.v" > extract.log 2>&1) || { cat "$OUT/extract.log"; exit 1; }
rm -f "$HERE/../coq/Extract.vo" "$HERE/../coq/Extract.glob" "$HERE/../coq/.Extract.aux" "$OUT"/Extract.*
cp "$HERE/driver.ml" "$OUT/driver.ml"
cd "$OUT"
FILES=$(ocamlfind ocamldep -sort *.ml *.mli)
ocamlfind ocamlopt -O2 -w -a -package zarith -linkpkg $FILES -o mrun 2> build.log || ocamlfind ocamlopt -w -a -package zarith -linkpkg $FILES -o mrun
