(* Line-oriented driver around the extracted Coq models.  Hand-written glue only:
   token parsing, conversions between OCaml ints/strings and the Coq datatypes
   (kept as extracted: positive, N, Z, nat, byte), printing. *)

(* ---- conversions -------------------------------------------------------- *)
let rec pos_of_z (z : Z.t) : BinNums.positive =
  if Z.equal z Z.one then BinNums.Coq_xH
  else if Z.is_even z then BinNums.Coq_xO (pos_of_z (Z.shift_right z 1))
  else BinNums.Coq_xI (pos_of_z (Z.shift_right z 1))
let rec z_of_pos (p : BinNums.positive) : Z.t =
  match p with
  | BinNums.Coq_xH -> Z.one
  | BinNums.Coq_xO q -> Z.shift_left (z_of_pos q) 1
  | BinNums.Coq_xI q -> Z.succ (Z.shift_left (z_of_pos q) 1)
let coqn_of_z (z : Z.t) : BinNums.coq_N =
  if Z.sign z = 0 then BinNums.N0 else BinNums.Npos (pos_of_z z)
let z_of_coqn (n : BinNums.coq_N) : Z.t =
  match n with BinNums.N0 -> Z.zero | BinNums.Npos p -> z_of_pos p
let coqz_of_z (z : Z.t) : BinNums.coq_Z =
  if Z.sign z = 0 then BinNums.Z0
  else if Z.sign z > 0 then BinNums.Zpos (pos_of_z z)
  else BinNums.Zneg (pos_of_z (Z.neg z))
let z_of_coqz (z : BinNums.coq_Z) : Z.t =
  match z with
  | BinNums.Z0 -> Z.zero
  | BinNums.Zpos p -> z_of_pos p
  | BinNums.Zneg p -> Z.neg (z_of_pos p)
let coqz_of_int i = coqz_of_z (Z.of_int i)
let int_of_coqz z = Z.to_int (z_of_coqz z)
let rec nat_of_int (i : int) : Datatypes.nat =
  if i <= 0 then Datatypes.O else Datatypes.S (nat_of_int (i - 1))

(* byte: the 256 constant constructors x00..xff of Coq.Init.Byte.byte are extracted in
   order, so constructor k is the immediate integer k.  Checked at start-up against the
   extracted Byte.to_N. *)
let byte_of_int (i : int) : Byte.byte = Obj.magic i
let int_of_byte (b : Byte.byte) : int = Obj.magic b
let () =
  for i = 0 to 255 do
    if Z.to_int (z_of_coqn (Bytes0.b2n (byte_of_int i))) <> i then
      failwith "byte representation self-test failed"
  done

let bytes_of_string (s : string) : Byte.byte list =
  let r = ref [] in
  for i = String.length s - 1 downto 0 do r := byte_of_int (Char.code s.[i]) :: !r done;
  !r
let string_of_bytes (l : Byte.byte list) : string =
  let b = Buffer.create 64 in
  List.iter (fun x -> Buffer.add_char b (Char.chr (int_of_byte x))) l;
  Buffer.contents b

(* ---- tokens (see harness/cmd/vh/tok.go) ---------------------------------- *)
let hexval c =
  match c with
  | '0'..'9' -> Char.code c - 48
  | 'a'..'f' -> Char.code c - 87
  | 'A'..'F' -> Char.code c - 55
  | _ -> failwith "bad hex"
let unhex (t : string) : string =
  let n = String.length t / 2 in
  String.init n (fun i -> Char.chr (hexval t.[2*i] * 16 + hexval t.[2*i+1]))
let hex (s : string) : string =
  let b = Buffer.create (2 * String.length s) in
  String.iter (fun c -> Buffer.add_string b (Printf.sprintf "%02x" (Char.code c))) s;
  Buffer.contents b
let pattern n a = String.init n (fun i -> Char.chr ((a + 31*i + 7*(i/256)) land 255))
let parse_tok (t : string) : string =
  if t = "-" then ""
  else if t.[0] = 'P' then Scanf.sscanf t "P%d:%d" pattern
  else unhex t
let tok_bytes s = if s = "" then "-" else hex s
let tok_out s =
  if String.length s > 256 then
    "#" ^ Digest.to_hex (Digest.string s) ^ ":" ^ string_of_int (String.length s)
  else tok_bytes s

let split_ws (l : string) : string list =
  List.filter (fun s -> s <> "") (String.split_on_char ' ' l)

(* ---- codec mode ----------------------------------------------------------- *)
let rec take n l = if n = 0 then [] else match l with [] -> [] | x :: r -> x :: take (n-1) r
let rec drop n l = if n = 0 then l else match l with [] -> [] | _ :: r -> drop (n-1) r
let rec pairs l = match l with a :: b :: r -> (a, b) :: pairs r | _ -> []

let sort_uniq_bytes (l : string list) = List.sort_uniq compare l

let codec_line (toks : string list) : (string * string) option =
  (* returns (model encoding token, impl encoding token) *)
  match toks with
  | "KEY" :: name :: exp :: enc :: _ ->
      let m = Codec.key_enc (bytes_of_string (parse_tok name)) (coqz_of_z (Z.of_string exp)) in
      Some (tok_out (string_of_bytes m), enc)
  | "STR" :: v :: enc :: _ ->
      Some (tok_out (string_of_bytes (Codec.str_enc (bytes_of_string (parse_tok v)))), enc)
  | "LIST" :: n :: rest ->
      let n = int_of_string n in
      let rest = if n = 0 then List.tl rest else rest in
      let vs = List.map (fun t -> bytes_of_string (parse_tok t)) (take n rest) in
      let enc = List.hd (drop n rest) in
      Some (tok_out (string_of_bytes (Codec.list_enc vs)), enc)
  | "SET" :: n :: rest ->
      let n = int_of_string n in
      let rest = if n = 0 then List.tl rest else rest in
      let vs = sort_uniq_bytes (List.map parse_tok (take n rest)) in
      let enc = List.hd (drop n rest) in
      Some (tok_out (string_of_bytes (Codec.set_enc (List.map bytes_of_string vs))), enc)
  | "HASH" :: n :: rest ->
      let n = int_of_string n in
      let rest = if n = 0 then List.tl rest else rest in
      let kvs = pairs (List.map parse_tok (take (2*n) rest)) in
      (* later writes win; btree order = bytewise order of field names *)
      let tbl = Hashtbl.create 16 in
      List.iter (fun (k, v) -> Hashtbl.replace tbl k v) kvs;
      let ks = sort_uniq_bytes (List.map fst kvs) in
      let kvs = List.map (fun k -> (bytes_of_string k, bytes_of_string (Hashtbl.find tbl k))) ks in
      let enc = List.hd (drop (2*n) rest) in
      Some (tok_out (string_of_bytes (Codec.hash_enc kvs)), enc)
  | "ZSET" :: n :: rest ->
      let n = int_of_string n in
      let rest = if n = 0 then List.tl rest else rest in
      let its = pairs (take (2*n) rest) in
      let tbl = Hashtbl.create 16 in
      List.iter (fun (b, m) -> Hashtbl.replace tbl (parse_tok m) b) its;
      let ms = sort_uniq_bytes (List.map (fun (_, m) -> parse_tok m) its) in
      let its = List.map (fun m ->
        (coqn_of_z (Z.of_string_base 16 (Hashtbl.find tbl m)), bytes_of_string m)) ms in
      let enc = List.hd (drop (2*n) rest) in
      Some (tok_out (string_of_bytes (Codec.zset_enc its)), enc)
  | "ENT" :: typ :: v :: enc :: _ ->
      let m = Codec.entry_enc (byte_of_int (int_of_string typ)) (bytes_of_string (parse_tok v)) in
      Some (tok_out (string_of_bytes m), enc)
  | _ -> None

let codec_main file =
  let ic = open_in file in
  let n = ref 0 and diffs = ref 0 and lineno = ref 0 in
  (try
    while true do
      let l = input_line ic in
      incr lineno;
      match codec_line (split_ws l) with
      | Some (m, i) ->
          incr n;
          if m <> i then begin
            incr diffs;
            Printf.printf "DIFF %d model=%s impl=%s\n" !lineno m i
          end
      | None -> Printf.printf "SKIP %d\n" !lineno
    done
  with End_of_file -> ());
  Printf.printf "SUMMARY cases=%d diffs=%d\n" !n !diffs


(* ======================= trace mode (data plane) ============================ *)
let bs = bytes_of_string
let sb = string_of_bytes

let score_str (s : Num.score) : string = sb (Num.format_score s)

let value_tokens (v : Db.value) : string =
  match v with
  | Db.VStr s -> Printf.sprintf "s %d %s" (if s.DsStr.snil then 1 else 0) (tok_out (sb s.DsStr.sv))
  | Db.VList l ->
      let el = l.DsList.lx in
      String.concat " " (Printf.sprintf "l %d %d ok" (int_of_coqz l.DsList.ll) (List.length el)
                         :: List.map (fun e -> tok_out (sb e)) el)
  | Db.VHash h ->
      String.concat " " (Printf.sprintf "h %d" (List.length h)
                         :: List.concat_map (fun (k, v) -> [tok_out (sb k); tok_out (sb v)]) h)
  | Db.VSet s ->
      String.concat " " (Printf.sprintf "S %d" (List.length s) :: List.map (fun (m, _) -> tok_out (sb m)) s)
  | Db.VZSet z ->
      let d = z.DsZSet.zd and l = z.DsZSet.zl in
      String.concat " "
        ((Printf.sprintf "z ok %d" (List.length d)
          :: List.concat_map (fun (m, s) -> [tok_out (sb m); score_str s]) d)
         @ (string_of_int (List.length l)
            :: List.concat_map (fun (s, m) -> [tok_out (sb m); score_str s]) l))

let rec nm_get k m = match m with [] -> None | (k', v) :: r -> if k = k' then Some v else nm_get k r

let nat_to_int (n : Datatypes.nat) : int =
  let rec go n acc = match n with Datatypes.O -> acc | Datatypes.S k -> go k (acc + 1) in go n 0

let obj_tokens (d : Db.db) (o : Datatypes.nat option) : string =
  match o with
  | None -> "cold"
  | Some r -> (match nm_get r d.Db.vobjs with Some v -> value_tokens v | None -> "dangling")

let pebble_entry_tokens (v : Db.value) : string =
  let ty = int_of_coqz (Db.vtype v) in
  let payload =
    match v with
    | Db.VStr s -> sb s.DsStr.sv
    | Db.VList l -> sb (Codec.list_enc l.DsList.lx)
    | Db.VHash h -> sb (Codec.hash_enc h)
    | Db.VSet s -> sb (Codec.set_enc (List.map fst s))
    | Db.VZSet z -> sb (Codec.zset_enc (List.map (fun (m, _) -> (BinNums.N0, m)) z.DsZSet.zd)) in
  let bytes = String.make 1 (Char.chr ty) ^ payload in
  match v with
  | Db.VZSet _ -> Printf.sprintf "z:%d %d" (String.length bytes) ty
  | _ -> Printf.sprintf "%s:%d %d" (Digest.to_hex (Digest.string bytes)) (String.length bytes) ty

let model_dump (d : Db.db) : string list =
  let keys =
    List.map (fun (name, m) ->
      let (_, exp) = (match nm_get m.Db.m_key d.Db.kobjs with Some k -> k | None -> ([], BinNums.Z0)) in
      Printf.sprintf "K %s %s %d %d %d %d %s" (tok_bytes (sb name)) (Z.to_string (z_of_coqz exp))
        (match m.Db.m_val with Some _ -> 1 | None -> 0) (if m.Db.m_mod then 1 else 0)
        (int_of_coqz m.Db.m_count) (int_of_coqz m.Db.m_vtype) (obj_tokens d m.Db.m_val)) d.Db.idx in
  let ents =
    List.map (fun (enc, e) ->
      match e with
      | Db.SMem (k, o) ->
          let (nm, exp) = (match nm_get k d.Db.kobjs with Some k -> k | None -> ([], BinNums.Z0)) in
          Printf.sprintf "M %s %s %s %s" (tok_bytes (sb enc)) (tok_bytes (sb nm)) (Z.to_string (z_of_coqz exp))
            (obj_tokens d (Some o))
      | Db.SPeb v -> Printf.sprintf "P %s %s" (tok_bytes (sb enc)) (pebble_entry_tokens v)) d.Db.disk in
  (Printf.sprintf "DUMP %d" (List.length keys) :: keys) @ (Printf.sprintf "ST %d" (List.length ents) :: ents)

let act_token (a : Handlers.wact) : string =
  match a with
  | Handlers.WStr s -> "S" ^ tok_bytes (sb s)
  | Handlers.WBulk b -> "B" ^ tok_out (sb b)
  | Handlers.WArr n -> "A" ^ Z.to_string (z_of_coqz n)
  | Handlers.WErr -> "E"
  | Handlers.WNullBulk -> "N"
  | Handlers.WNullArr -> "n"
  | Handlers.WInt z -> "I" ^ Z.to_string (z_of_coqz z)

(* replies whose element order comes from Go map iteration: sort the field/value pairs *)
let canon_reply (name : string) (toks : string list) : string list =
  let sort_pairs l =
    let rec pr l = match l with a :: b :: r -> (a, b) :: pr r | _ -> [] in
    List.concat_map (fun (a, b) -> [a; b]) (List.sort compare (pr l)) in
  match name, toks with
  | "HGETALL", (hd :: rest) when String.length hd > 0 && hd.[0] = 'A' -> hd :: sort_pairs rest
  | "HSCAN", (a :: c :: hd :: rest) when a = "A2" -> a :: c :: hd :: sort_pairs rest
  | _ -> toks

type trace_stats = { mutable cases : int; mutable steps : int; mutable unm : int; mutable diffs : int;
                     mutable cut_cases : int; mutable ambiguous : int }

let trace_main file =
  let ic = open_in file in
  let st = { cases = 0; steps = 0; unm = 0; diffs = 0; cut_cases = 0; ambiguous = 0 } in
  let lines = ref [] in
  (try while true do lines := input_line ic :: !lines done with End_of_file -> ());
  let lines = Array.of_list (List.rev !lines) in
  let n = Array.length lines in
  let i = ref 0 in
  let server = ref (Conn.server_new false) in
  let case_id = ref "" in
  let active = ref false in
  let stepno = ref 0 in
  (* read the dump block that follows a step *)
  let read_dump () : string list =
    let acc = ref [] in
    while !i < n && (let l = lines.(!i) in
                     String.length l > 0 &&
                     (match l.[0] with 'D' | 'K' | 'S' | 'M' | 'P' -> not (String.length l > 1 && l.[1] = 'T' && l.[0] <> 'S') | _ -> false)
                     && not (String.length l >= 2 && String.sub l 0 2 = "OP")) do
      acc := lines.(!i) :: !acc; incr i
    done;
    List.rev !acc in
  while !i < n do
    let l = lines.(!i) in
    incr i;
    let toks = split_ws l in
    (match toks with
     | "CASE" :: id :: be :: _ ->
         st.cases <- st.cases + 1; case_id := id; active := true; stepno := 0;
         server := Conn.server_new (be = "peb")
     | "END" :: _ -> active := false
     | ("OP" | "X") :: _ when !active ->
         incr stepno;
         (* split at "=>" *)
         let rec split acc l = match l with
           | "=>" :: r -> (List.rev acc, r)
           | x :: r -> split (x :: acc) r
           | [] -> (List.rev acc, []) in
         let (lhs, reply) = split [] toks in
         let dump = read_dump () in
         let nl = List.length lhs in
         let t0 = Z.of_string (List.nth lhs (nl - 2)) and t1 = Z.of_string (List.nth lhs (nl - 1)) in
         let cands =
           let w = Z.to_int (Z.sub t1 t0) in
           if w <= 40 then List.init (w + 1) (fun k -> Z.add t0 (Z.of_int k))
           else [t0; Z.add t0 (Z.of_int (w / 2)); t1] in
         let fail kind model impl =
           st.diffs <- st.diffs + 1; active := false;
           Printf.printf "DIFF %s step=%d kind=%s\n  cmd: %s\n  model: %s\n  impl:  %s\n" !case_id !stepno kind
             (String.concat " " lhs) model impl in
         (match lhs with
          | "OP" :: conn :: name :: nargs :: rest ->
              let nargs = int_of_string nargs in
              let rest = if nargs = 0 then List.tl rest else rest in
              let args = List.map (fun t -> bs (parse_tok t)) (take nargs rest) in
              let c = nat_of_int (int_of_string conn) in
              let impl_reply = canon_reply name reply in
              let try_now now =
                match Conn.serve c (bs name) args (coqz_of_z now) !server with
                | None -> `Unm
                | Some (s', acts) ->
                    let mr = canon_reply name (List.map act_token acts) in
                    let md = model_dump s'.Conn.s_db in
                    `Res (s', mr, md) in
              let results = List.map try_now cands in
              if List.exists (fun r -> r = `Unm) (List.map (function `Unm -> `Unm | _ -> `X) results) then begin
                st.unm <- st.unm + 1; st.cut_cases <- st.cut_cases + 1; active := false;
                Printf.printf "UNM %s step=%d %s\n" !case_id !stepno name
              end else begin
                st.steps <- st.steps + 1;
                let ok = List.filter_map (function
                  | `Res (s', mr, md) when mr = impl_reply && (dump = [] || md = dump) -> Some s'
                  | _ -> None) results in
                match ok with
                | s' :: _ -> server := s'
                | [] ->
                    (* TTL has nanosecond resolution: allow the neighbouring millisecond *)
                    let ttl_ok =
                      name = "TTL" &&
                      (match Conn.serve c (bs name) args (coqz_of_z (Z.succ t1)) !server with
                       | Some (s', acts) when List.map act_token acts = impl_reply -> server := s'; true
                       | _ -> false) in
                    if not ttl_ok then
                    (match List.hd results with
                     | `Res (_, mr, md) ->
                         if mr <> impl_reply then fail "reply" (String.concat " " mr) (String.concat " " impl_reply)
                         else begin
                           let rec first_diff a b k = match a, b with
                             | x :: ra, y :: rb -> if x = y then first_diff ra rb (k + 1) else (x, y)
                             | x :: _, [] -> (x, "<missing>")
                             | [], y :: _ -> ("<missing>", y)
                             | [], [] -> ("", "") in
                           let (m, im) = first_diff md dump 0 in
                           fail "state" m im
                         end
                     | `Unm -> ())
              end
          | "X" :: op :: arg :: _ ->
              st.steps <- st.steps + 1;
              let res = match reply with r :: _ -> r | [] -> "" in
              let d = !server.Conn.s_db in
              let apply now =
                match op with
                | "GC" -> if Db.gc_modelled d then Some (Conn.put_db (Db.gc (coqz_of_z now) d) !server) else None
                | "FLUSH" -> Some (Conn.put_db (Db.flush (coqz_of_z now) d) !server)
                | "REOPEN" ->
                    let d' = Db.open_scan (Db.close (coqz_of_z now) d) in
                    Some { Conn.s_db = d'; Conn.s_conns = []; Conn.s_registry = [] }
                | "FAULTS" ->
                    let fl = List.init (String.length arg) (fun k -> arg.[k] = '1') in
                    Some (Conn.put_db (Db.with_faults d (if arg = "-" then [] else fl)) !server)
                | _ -> Some !server in
              if res <> "ok" then fail "xop" "ok" res
              else begin
                let rs = List.map (fun now -> match apply now with
                                              | Some s' -> Some (s', model_dump s'.Conn.s_db) | None -> None) cands in
                if List.mem None rs then begin
                  st.unm <- st.unm + 1; st.cut_cases <- st.cut_cases + 1; active := false;
                  Printf.printf "UNM %s step=%d X %s\n" !case_id !stepno op
                end else
                  match List.filter_map (function Some (s', md) when dump = [] || md = dump -> Some s' | _ -> None) rs with
                  | s' :: _ -> server := s'
                  | [] ->
                      (match List.hd rs with
                       | Some (_, md) ->
                           let rec first_diff a b = match a, b with
                             | x :: ra, y :: rb -> if x = y then first_diff ra rb else (x, y)
                             | x :: _, [] -> (x, "<missing>")
                             | [], y :: _ -> ("<missing>", y)
                             | [], [] -> ("", "") in
                           let (m, im) = first_diff md dump in
                           fail "state" m im
                       | None -> ())
              end
          | _ -> ())
     | _ -> ())
  done;
  Printf.printf "SUMMARY cases=%d steps=%d unm=%d diffs=%d\n" st.cases st.steps st.unm st.diffs

let () =
  match Array.to_list Sys.argv with
  | _ :: "codec" :: file :: _ -> codec_main file
  | _ :: "trace" :: file :: _ -> trace_main file
  | _ -> prerr_endline "usage: mrun <mode> <file>"; exit 2
