(* Line-oriented driver around the extracted Coq models.  Hand-written glue only:
   token parsing, conversions between OCaml ints/strings and the Coq datatypes
   (kept as extracted: positive, N, Z, nat, byte), printing. *)

(* ---- conversions -------------------------------------------------------- *)
let rec pos_of_z (z : Z.t) : BinNums.positive =
  if Z.equal z Z.one then BinNums.Coq_xH
  else if Z.is_even z then BinNums.Coq_xO (pos_of_z (Z.shift_right z 1))
  else BinNums.Coq_xI (pos_of_z (Z.shift_right z 1))
let rec z_of_pos (p : BinNums.positive) : Z.t =
  match p with
  | BinNums.Coq_xH -> Z.one
  | BinNums.Coq_xO q -> Z.shift_left (z_of_pos q) 1
  | BinNums.Coq_xI q -> Z.succ (Z.shift_left (z_of_pos q) 1)
let coqn_of_z (z : Z.t) : BinNums.coq_N =
  if Z.sign z = 0 then BinNums.N0 else BinNums.Npos (pos_of_z z)
let z_of_coqn (n : BinNums.coq_N) : Z.t =
  match n with BinNums.N0 -> Z.zero | BinNums.Npos p -> z_of_pos p
let coqz_of_z (z : Z.t) : BinNums.coq_Z =
  if Z.sign z = 0 then BinNums.Z0
  else if Z.sign z > 0 then BinNums.Zpos (pos_of_z z)
  else BinNums.Zneg (pos_of_z (Z.neg z))
let z_of_coqz (z : BinNums.coq_Z) : Z.t =
  match z with
  | BinNums.Z0 -> Z.zero
  | BinNums.Zpos p -> z_of_pos p
  | BinNums.Zneg p -> Z.neg (z_of_pos p)
let coqz_of_int i = coqz_of_z (Z.of_int i)
let int_of_coqz z = Z.to_int (z_of_coqz z)
let rec int_of_nat (n : Datatypes.nat) : int = match n with Datatypes.O -> 0 | Datatypes.S m -> 1 + int_of_nat m
let rec nat_of_int (i : int) : Datatypes.nat =
  if i <= 0 then Datatypes.O else Datatypes.S (nat_of_int (i - 1))

(* byte: the 256 constant constructors x00..xff of Coq.Init.Byte.byte are extracted in
   order, so constructor k is the immediate integer k.  Checked at start-up against the
   extracted Byte.to_N. *)
let byte_of_int (i : int) : Byte.byte = Obj.magic i
let int_of_byte (b : Byte.byte) : int = Obj.magic b
let () =
  for i = 0 to 255 do
    if Z.to_int (z_of_coqn (Bytes0.b2n (byte_of_int i))) <> i then
      failwith "byte representation self-test failed"
  done

let bytes_of_string (s : string) : Byte.byte list =
  let r = ref [] in
  for i = String.length s - 1 downto 0 do r := byte_of_int (Char.code s.[i]) :: !r done;
  !r
let string_of_bytes (l : Byte.byte list) : string =
  let b = Buffer.create 64 in
  List.iter (fun x -> Buffer.add_char b (Char.chr (int_of_byte x))) l;
  Buffer.contents b

(* ---- tokens (see harness/cmd/vh/tok.go) ---------------------------------- *)
let hexval c =
  match c with
  | '0'..'9' -> Char.code c - 48
  | 'a'..'f' -> Char.code c - 87
  | 'A'..'F' -> Char.code c - 55
  | _ -> failwith "bad hex"
let unhex (t : string) : string =
  let n = String.length t / 2 in
  String.init n (fun i -> Char.chr (hexval t.[2*i] * 16 + hexval t.[2*i+1]))
let hex (s : string) : string =
  let b = Buffer.create (2 * String.length s) in
  String.iter (fun c -> Buffer.add_string b (Printf.sprintf "%02x" (Char.code c))) s;
  Buffer.contents b
let pattern n a = String.init n (fun i -> Char.chr ((a + 31*i + 7*(i/256)) land 255))
let parse_tok (t : string) : string =
  if t = "-" then ""
  else if t.[0] = 'P' then Scanf.sscanf t "P%d:%d" pattern
  else unhex t
let tok_bytes s = if s = "" then "-" else hex s
let tok_out s =
  if String.length s > 256 then
    "#" ^ Digest.to_hex (Digest.string s) ^ ":" ^ string_of_int (String.length s)
  else tok_bytes s

let name_untok (t : string) : string =
  if String.length t > 0 && t.[0] = ':' then unhex (String.sub t 1 (String.length t - 1)) else t

let split_ws (l : string) : string list =
  List.filter (fun s -> s <> "") (String.split_on_char ' ' l)

(* ---- codec mode ----------------------------------------------------------- *)
let rec take n l = if n = 0 then [] else match l with [] -> [] | x :: r -> x :: take (n-1) r
let rec drop n l = if n = 0 then l else match l with [] -> [] | _ :: r -> drop (n-1) r
let rec pairs l = match l with a :: b :: r -> (a, b) :: pairs r | _ -> []

let sort_uniq_bytes (l : string list) = List.sort_uniq compare l

let codec_line (toks : string list) : (string * string) option =
  (* returns (model encoding token, impl encoding token) *)
  match toks with
  | "KEY" :: name :: exp :: enc :: _ ->
      let m = Codec.key_enc (bytes_of_string (parse_tok name)) (coqz_of_z (Z.of_string exp)) in
      Some (tok_out (string_of_bytes m), enc)
  | "STR" :: v :: enc :: _ ->
      Some (tok_out (string_of_bytes (Codec.str_enc (bytes_of_string (parse_tok v)))), enc)
  | "LIST" :: n :: rest ->
      let n = int_of_string n in
      let rest = if n = 0 then List.tl rest else rest in
      let vs = List.map (fun t -> bytes_of_string (parse_tok t)) (take n rest) in
      let enc = List.hd (drop n rest) in
      Some (tok_out (string_of_bytes (Codec.list_enc vs)), enc)
  | "SET" :: n :: rest ->
      let n = int_of_string n in
      let rest = if n = 0 then List.tl rest else rest in
      let vs = sort_uniq_bytes (List.map parse_tok (take n rest)) in
      let enc = List.hd (drop n rest) in
      Some (tok_out (string_of_bytes (Codec.set_enc (List.map bytes_of_string vs))), enc)
  | "HASH" :: n :: rest ->
      let n = int_of_string n in
      let rest = if n = 0 then List.tl rest else rest in
      let kvs = pairs (List.map parse_tok (take (2*n) rest)) in
      (* later writes win; btree order = bytewise order of field names *)
      let tbl = Hashtbl.create 16 in
      List.iter (fun (k, v) -> Hashtbl.replace tbl k v) kvs;
      let ks = sort_uniq_bytes (List.map fst kvs) in
      let kvs = List.map (fun k -> (bytes_of_string k, bytes_of_string (Hashtbl.find tbl k))) ks in
      let enc = List.hd (drop (2*n) rest) in
      Some (tok_out (string_of_bytes (Codec.hash_enc kvs)), enc)
  | "ZSET" :: n :: rest ->
      let n = int_of_string n in
      let rest = if n = 0 then List.tl rest else rest in
      let its = pairs (take (2*n) rest) in
      let tbl = Hashtbl.create 16 in
      List.iter (fun (b, m) -> Hashtbl.replace tbl (parse_tok m) b) its;
      let ms = sort_uniq_bytes (List.map (fun (_, m) -> parse_tok m) its) in
      let its = List.map (fun m ->
        (coqn_of_z (Z.of_string_base 16 (Hashtbl.find tbl m)), bytes_of_string m)) ms in
      let enc = List.hd (drop (2*n) rest) in
      Some (tok_out (string_of_bytes (Codec.zset_enc its)), enc)
  | "ENT" :: typ :: v :: enc :: _ ->
      let m = Codec.entry_enc (byte_of_int (int_of_string typ)) (bytes_of_string (parse_tok v)) in
      Some (tok_out (string_of_bytes m), enc)
  | _ -> None

let codec_main file =
  let ic = open_in file in
  let n = ref 0 and diffs = ref 0 and lineno = ref 0 in
  (try
    while true do
      let l = input_line ic in
      incr lineno;
      match codec_line (split_ws l) with
      | Some (m, i) ->
          incr n;
          if m <> i then begin
            incr diffs;
            Printf.printf "DIFF %d model=%s impl=%s\n" !lineno m i
          end
      | None -> Printf.printf "SKIP %d\n" !lineno
    done
  with End_of_file -> ());
  Printf.printf "SUMMARY cases=%d diffs=%d\n" !n !diffs


(* ======================= trace mode (data plane) ============================ *)
let bs = bytes_of_string
let sb = string_of_bytes

let score_str (s : Num.score) : string = sb (Num.format_score s)

let tok_val s = if String.length s > 8192 then tok_out s else tok_bytes s

let value_tokens (v : Db.value) : string =
  match v with
  | Db.VStr s -> Printf.sprintf "s %d %s" (if s.DsStr.snil then 1 else 0) (tok_val (sb s.DsStr.sv))
  | Db.VList l ->
      let el = l.DsList.lx in
      String.concat " " (Printf.sprintf "l %d %d ok" (int_of_coqz l.DsList.ll) (List.length el)
                         :: List.map (fun e -> tok_val (sb e)) el)
  | Db.VHash h ->
      String.concat " " (Printf.sprintf "h %d" (List.length h)
                         :: List.concat_map (fun (k, v) -> [tok_val (sb k); tok_val (sb v)]) h)
  | Db.VSet s ->
      String.concat " " (Printf.sprintf "S %d" (List.length s) :: List.map (fun (m, _) -> tok_val (sb m)) s)
  | Db.VZSet z ->
      let d = z.DsZSet.zd and l = z.DsZSet.zl in
      String.concat " "
        ((Printf.sprintf "z ok %d" (List.length d)
          :: List.concat_map (fun (m, s) -> [tok_val (sb m); score_str s]) d)
         @ (string_of_int (List.length l)
            :: List.concat_map (fun (s, m) -> [tok_val (sb m); score_str s]) l))

let rec nm_get k m = match m with [] -> None | (k', v) :: r -> if k = k' then Some v else nm_get k r

let nat_to_int (n : Datatypes.nat) : int =
  let rec go n acc = match n with Datatypes.O -> acc | Datatypes.S k -> go k (acc + 1) in go n 0

let obj_tokens (d : Db.db) (o : Datatypes.nat option) : string =
  match o with
  | None -> "cold"
  | Some r -> (match nm_get r d.Db.vobjs with Some v -> value_tokens v | None -> "dangling")

let pebble_entry_tokens (v : Db.value) : string =
  let ty = int_of_coqz (Db.vtype v) in
  let payload =
    match v with
    | Db.VStr s -> sb s.DsStr.sv
    | Db.VList l -> sb (Codec.list_enc l.DsList.lx)
    | Db.VHash h -> sb (Codec.hash_enc h)
    | Db.VSet s -> sb (Codec.set_enc (List.map fst s))
    | Db.VZSet z -> sb (Codec.zset_enc (List.map (fun (m, _) -> (BinNums.N0, m)) z.DsZSet.zd)) in
  let bytes = String.make 1 (Char.chr ty) ^ payload in
  match v with
  | Db.VZSet _ -> Printf.sprintf "z:%d %d" (String.length bytes) ty
  | _ -> Printf.sprintf "%s:%d %d" (Digest.to_hex (Digest.string bytes)) (String.length bytes) ty

let model_dump (d : Db.db) : string list =
  let keys =
    List.map (fun (name, m) ->
      let (_, exp) = (match nm_get m.Db.m_key d.Db.kobjs with Some k -> k | None -> ([], BinNums.Z0)) in
      Printf.sprintf "K %s %s %d %d %d %d %s" (tok_bytes (sb name)) (Z.to_string (z_of_coqz exp))
        (match m.Db.m_val with Some _ -> 1 | None -> 0) (if m.Db.m_mod then 1 else 0)
        (int_of_coqz m.Db.m_count) (int_of_coqz m.Db.m_vtype) (obj_tokens d m.Db.m_val)) d.Db.idx in
  let ents =
    List.map (fun (enc, e) ->
      match e with
      | Db.SMem (k, o) ->
          let (nm, exp) = (match nm_get k d.Db.kobjs with Some k -> k | None -> ([], BinNums.Z0)) in
          Printf.sprintf "M %s %s %s %s" (tok_bytes (sb enc)) (tok_bytes (sb nm)) (Z.to_string (z_of_coqz exp))
            (obj_tokens d (Some o))
      | Db.SPeb v -> Printf.sprintf "P %s %s" (tok_bytes (sb enc)) (pebble_entry_tokens v)) d.Db.disk in
  (Printf.sprintf "DUMP %d" (List.length keys) :: keys) @ (Printf.sprintf "ST %d" (List.length ents) :: ents)

let act_token (a : Handlers.wact) : string =
  match a with
  | Handlers.WStr s -> "S" ^ tok_bytes (sb s)
  | Handlers.WBulk b -> "B" ^ tok_out (sb b)
  | Handlers.WArr n -> "A" ^ Z.to_string (z_of_coqz n)
  | Handlers.WErr -> "E"
  | Handlers.WNullBulk -> "N"
  | Handlers.WNullArr -> "n"
  | Handlers.WInt z -> "I" ^ Z.to_string (z_of_coqz z)

(* replies whose element order comes from Go map iteration: sort the field/value pairs *)
let canon_reply (name : string) (toks : string list) : string list =
  let sort_pairs l =
    let rec pr l = match l with a :: b :: r -> (a, b) :: pr r | _ -> [] in
    List.concat_map (fun (a, b) -> [a; b]) (List.sort compare (pr l)) in
  match name, toks with
  | "HGETALL", (hd :: rest) when String.length hd > 0 && hd.[0] = 'A' -> hd :: sort_pairs rest
  | "HSCAN", (a :: c :: hd :: rest) when a = "A2" -> a :: c :: hd :: sort_pairs rest
  | _ -> toks

(* change records: the record type of patch.Op and the key it names *)
let pop_name_key (o : Db.pop) : string * string =
  match o with
  | Db.PSet (k, _, _, _) -> ("Set", sb k)
  | Db.PExpire (k, _) -> ("Expire", sb k)
  | Db.PPersist k -> ("Persist", sb k)
  | Db.PRename (k, _) -> ("Rename", sb k)
  | Db.PLPush (k, _) -> ("LPush", sb k) | Db.PRPush (k, _) -> ("RPush", sb k)
  | Db.PLPushX (k, _) -> ("LPushX", sb k) | Db.PRPushX (k, _) -> ("RPushX", sb k)
  | Db.PLPop (k, _) -> ("LPop", sb k) | Db.PRPop (k, _) -> ("RPop", sb k)
  | Db.PLInsert (k, _, _, _) -> ("LInsert", sb k)
  | Db.PLRem (k, _, _) -> ("LRem", sb k) | Db.PLSet (k, _, _) -> ("LSet", sb k)
  | Db.PLTrim (k, _, _) -> ("LTrim", sb k)
  | Db.PLPopRPush (k, _) -> ("LPopRPush", sb k) | Db.PRPopLPush (k, _) -> ("RPopLPush", sb k)
  | Db.PHSet (k, _, _) -> ("HSet", sb k) | Db.PHDel (k, _) -> ("HDel", sb k)
  | Db.PHIncrBy (k, _, _) -> ("HIncrBy", sb k) | Db.PHIncrByFloat (k, _, _) -> ("HIncrByFloat", sb k)
  | Db.PSAdd (k, _) -> ("SAdd", sb k) | Db.PSRem (k, _) -> ("SRem", sb k)
  | Db.PZAdd (k, _, _) -> ("ZAdd", sb k) | Db.PZIncrBy (k, _, _) -> ("ZIncrBy", sb k)
  | Db.PZRem (k, _) -> ("ZRem", sb k)
  | Db.PZRemRangeByRank (k, _, _) -> ("ZRemRangeByRank", sb k)
  | Db.PZRemRangeByScore (k, _, _, _) -> ("ZRemRangeByScore", sb k)
  | Db.PZUnionStore (k, _) -> ("ZUnionStore", sb k) | Db.PZInterStore (k, _) -> ("ZInterStore", sb k)
  | Db.PDel k -> ("Del", sb k) | Db.PClear -> ("Clear", "")

let new_records (before : Db.db) (after : Db.db) : string list =
  let nb = List.length before.Db.events and na = List.length after.Db.events in
  let fresh = List.rev (take (max 0 (na - nb)) after.Db.events) in
  List.filter_map (function
    | Db.EvNotify o -> let (nm, k) = pop_name_key o in Some (nm ^ " " ^ tok_bytes k)
    | _ -> None) fresh

type trace_stats = { mutable cases : int; mutable steps : int; mutable unm : int; mutable diffs : int;
                     mutable cut_cases : int; mutable ambiguous : int }

let trace_main file =
  let ic = open_in file in
  let st = { cases = 0; steps = 0; unm = 0; diffs = 0; cut_cases = 0; ambiguous = 0 } in
  let lines = ref [] in
  (try while true do lines := input_line ic :: !lines done with End_of_file -> ());
  let lines = Array.of_list (List.rev !lines) in
  let n = Array.length lines in
  let i = ref 0 in
  let server = ref (Conn.server_new false) in
  let case_id = ref "" in
  let active = ref false in
  let stepno = ref 0 in
  (* read the dump block that follows a step *)
  let read_dump () : string list =
    let acc = ref [] in
    while !i < n && (let l = lines.(!i) in
                     String.length l > 0 &&
                     (match l.[0] with 'D' | 'K' | 'S' | 'M' | 'P' -> not (String.length l > 1 && l.[1] = 'T' && l.[0] <> 'S') | _ -> false)
                     && not (String.length l >= 2 && String.sub l 0 2 = "OP")) do
      acc := lines.(!i) :: !acc; incr i
    done;
    List.rev !acc in
  while !i < n do
    let l = lines.(!i) in
    incr i;
    let toks = split_ws l in
    (match toks with
     | "CASE" :: id :: be :: _ ->
         st.cases <- st.cases + 1; case_id := id; active := true; stepno := 0;
         server := Conn.server_new (be = "peb")
     | "END" :: _ -> active := false
     | ("OP" | "X") :: _ when !active ->
         incr stepno;
         (* split at "=>" *)
         let rec split acc l = match l with
           | "=>" :: r -> (List.rev acc, r)
           | x :: r -> split (x :: acc) r
           | [] -> (List.rev acc, []) in
         let (lhs, reply) = split [] toks in
         let dump = read_dump () in
         (* the change records the step produced, when a feed is attached: "REC ..." then "R <type> <key> ..." *)
         let feed : string list option =
           if !i < n && String.length lines.(!i) >= 4 && String.sub lines.(!i) 0 4 = "REC " then begin
             incr i;
             let acc = ref [] in
             while !i < n && (let l = lines.(!i) in String.length l >= 2 && l.[0] = 'R' && (l.[1] = ' ' || l.[1] = '2' || l.[1] = 'E' || l.[1] = 'D' || l.[1] = 'K')) do
               (match split_ws lines.(!i) with
                | "R" :: nm :: k :: _ -> acc := (nm ^ " " ^ k) :: !acc
                | _ -> ());
               incr i
             done;
             Some (List.rev !acc)
           end else None in
         let nl = List.length lhs in
         let t0 = Z.of_string (List.nth lhs (nl - 2)) and t1 = Z.of_string (List.nth lhs (nl - 1)) in
         let cands =
           let w = Z.to_int (Z.sub t1 t0) in
           if w <= 40 then List.init (w + 1) (fun k -> Z.add t0 (Z.of_int k))
           else [t0; Z.add t0 (Z.of_int (w / 2)); t1] in
         let fail kind model impl =
           st.diffs <- st.diffs + 1; active := false;
           Printf.printf "DIFF %s step=%d kind=%s\n  cmd: %s\n  model: %s\n  impl:  %s\n" !case_id !stepno kind
             (String.concat " " lhs) model impl in
         (match lhs with
          | "OP" :: conn :: name :: nargs :: rest ->
              let name = name_untok name in
              let nargs = int_of_string nargs in
              let rest = if nargs = 0 then List.tl rest else rest in
              let args = List.map (fun t -> bs (parse_tok t)) (take nargs rest) in
              let c = nat_of_int (int_of_string conn) in
              let impl_reply = canon_reply name reply in
              let try_now now =
                match Conn.serve c (bs name) args (coqz_of_z now) !server with
                | None -> `Unm
                | Some (s', acts) ->
                    let mr = canon_reply name (List.map act_token acts) in
                    let md = model_dump s'.Conn.s_db in
                    `Res (s', mr, md) in
              let results = List.map try_now cands in
              if List.exists (fun r -> r = `Unm) (List.map (function `Unm -> `Unm | _ -> `X) results) then begin
                st.unm <- st.unm + 1; st.cut_cases <- st.cut_cases + 1; active := false;
                Printf.printf "UNM %s step=%d %s\n" !case_id !stepno name
              end else begin
                st.steps <- st.steps + 1;
                let ok = List.filter_map (function
                  | `Res (s', mr, md) when mr = impl_reply && (dump = [] || md = dump) -> Some s'
                  | _ -> None) results in
                match ok with
                | s' :: _ ->
                    let recs = new_records !server.Conn.s_db s'.Conn.s_db in
                    server := s';
                    (match feed with
                     | Some impl_recs when List.sort compare impl_recs <> List.sort compare recs ->
                         fail "records" (String.concat " ; " recs) (String.concat " ; " impl_recs)
                     | _ -> ())
                | [] ->
                    (* TTL has nanosecond resolution: allow the neighbouring millisecond *)
                    let ttl_ok =
                      name = "TTL" &&
                      (match Conn.serve c (bs name) args (coqz_of_z (Z.succ t1)) !server with
                       | Some (s', acts) when List.map act_token acts = impl_reply -> server := s'; true
                       | _ -> false) in
                    if not ttl_ok then
                    (match List.hd results with
                     | `Res (_, mr, md) ->
                         if mr <> impl_reply then fail "reply" (String.concat " " mr) (String.concat " " impl_reply)
                         else begin
                           let rec first_diff a b k = match a, b with
                             | x :: ra, y :: rb -> if x = y then first_diff ra rb (k + 1) else (x, y)
                             | x :: _, [] -> (x, "<missing>")
                             | [], y :: _ -> ("<missing>", y)
                             | [], [] -> ("", "") in
                           let (m, im) = first_diff md dump 0 in
                           fail "state" m im
                         end
                     | `Unm -> ())
              end
          | "X" :: op :: arg :: _ ->
              st.steps <- st.steps + 1;
              let res = match reply with r :: _ -> r | [] -> "" in
              let d = !server.Conn.s_db in
              let apply now =
                match op with
                | "GC" -> if Db.gc_modelled d then Some (Conn.put_db (Db.gc (coqz_of_z now) d) !server) else None
                | "FLUSH" -> Some (Conn.put_db (Db.flush (coqz_of_z now) d) !server)
                | "REOPEN" ->
                    let d' = Db.open_scan (Db.close (coqz_of_z now) d) in
                    Some { Conn.s_db = d'; Conn.s_conns = []; Conn.s_registry = [] }
                | "PROBE" ->
                    (* Type(name) on every index entry, in index order *)
                    let d' = List.fold_left (fun dd (name, _) -> snd (Api.api_type name (coqz_of_z now) dd)) d d.Db.idx in
                    Some (Conn.put_db d' !server)
                | "FAULTS" ->
                    let fl = List.init (String.length arg) (fun k -> arg.[k] = '1') in
                    Some (Conn.put_db (Db.with_faults d (if arg = "-" then [] else fl)) !server)
                | _ -> Some !server in
              if res <> "ok" then fail "xop" "ok" res
              else begin
                let rs = List.map (fun now -> match apply now with
                                              | Some s' -> Some (s', model_dump s'.Conn.s_db) | None -> None) cands in
                if List.mem None rs then begin
                  st.unm <- st.unm + 1; st.cut_cases <- st.cut_cases + 1; active := false;
                  Printf.printf "UNM %s step=%d X %s\n" !case_id !stepno op
                end else
                  match List.filter_map (function Some (s', md) when dump = [] || md = dump -> Some s' | _ -> None) rs with
                  | s' :: _ -> server := s'
                  | [] ->
                      (match List.hd rs with
                       | Some (_, md) ->
                           let rec first_diff a b = match a, b with
                             | x :: ra, y :: rb -> if x = y then first_diff ra rb else (x, y)
                             | x :: _, [] -> (x, "<missing>")
                             | [], y :: _ -> ("<missing>", y)
                             | [], [] -> ("", "") in
                           let (m, im) = first_diff md dump in
                           fail "state" m im
                       | None -> ())
              end
          | _ -> ())
     | _ -> ())
  done;
  Printf.printf "SUMMARY cases=%d steps=%d unm=%d diffs=%d\n" st.cases st.steps st.unm st.diffs



(* ======================= modeltrace: the model runs the script on its own ========================
   Same input as trace mode.  Nothing is compared: every step is executed on the model at the start of
   the step's clock bracket and printed in the trace format (step line, "=>" model reply, K lines of the
   model's index), so that the property judges can be run on what the UNCHANGED code would have done on
   a history on which the implementation has left the model. *)
let modeltrace_main file =
  let ic = open_in file in
  let lines = ref [] in
  (try while true do lines := input_line ic :: !lines done with End_of_file -> ());
  let lines = Array.of_list (List.rev !lines) in
  let n = Array.length lines in
  let server = ref (Conn.server_new false) in
  let active = ref false in
  for i = 0 to n - 1 do
    let l = lines.(i) in
    let toks = split_ws l in
    (match toks with
     | "CASE" :: id :: be :: _ ->
         active := true; server := Conn.server_new (be = "peb"); print_endline l
     | "END" :: _ -> if !active then print_endline "END"; active := false
     | ("OP" | "X") :: _ when !active ->
         let rec split acc l = match l with
           | "=>" :: r -> (List.rev acc, r)
           | x :: r -> split (x :: acc) r
           | [] -> (List.rev acc, []) in
         let (lhs, _) = split [] toks in
         let nl = List.length lhs in
         let t0 = Z.of_string (List.nth lhs (nl - 2)) in
         let emit s' reply =
           server := s';
           Printf.printf "%s => %s\n" (String.concat " " lhs) (String.concat " " reply);
           List.iter print_endline (model_dump s'.Conn.s_db) in
         (match lhs with
          | "OP" :: conn :: name :: nargs :: rest ->
              let name = name_untok name in
              let nargs = int_of_string nargs in
              let rest = if nargs = 0 then List.tl rest else rest in
              let args = List.map (fun t -> bs (parse_tok t)) (take nargs rest) in
              let c = nat_of_int (int_of_string conn) in
              (match Conn.serve c (bs name) args (coqz_of_z t0) !server with
               | None -> active := false; print_endline "END"
               | Some (s', acts) -> emit s' (List.map act_token acts))
          | "X" :: op :: arg :: _ ->
              let d = !server.Conn.s_db in
              let now = coqz_of_z t0 in
              let r = match op with
                | "GC" -> if Db.gc_modelled d then Some (Conn.put_db (Db.gc now d) !server) else None
                | "FLUSH" -> Some (Conn.put_db (Db.flush now d) !server)
                | "REOPEN" ->
                    let d' = Db.open_scan (Db.close now d) in
                    Some { Conn.s_db = d'; Conn.s_conns = []; Conn.s_registry = [] }
                | "PROBE" ->
                    let d' = List.fold_left (fun dd (name, _) -> snd (Api.api_type name now dd)) d d.Db.idx in
                    Some (Conn.put_db d' !server)
                | "FAULTS" ->
                    let fl = List.init (String.length arg) (fun k -> arg.[k] = '1') in
                    Some (Conn.put_db (Db.with_faults d (if arg = "-" then [] else fl)) !server)
                | _ -> Some !server in
              (match r with
               | None -> active := false; print_endline "END"
               | Some s' -> emit s' ["ok"])
          | _ -> ())
     | _ -> ())
  done

(* ======================= judge mode (implementation vs specification) ============== *)
(* Per step: abstract the implementation's dump before the command, run the specification,
   compare the reply and the abstraction of the dump after the command. *)
type jval = JKnown of Redis.sval | JUnknown

let digests : (string, string) Hashtbl.t = Hashtbl.create 64
let register_bytes (s : string) =
  if String.length s > 256 then Hashtbl.replace digests (tok_out s) s

(* a dump/arg token back to bytes; None for an unregistered digest *)
let untok (t : string) : string option =
  if t = "-" then Some ""
  else if t.[0] = '#' then Hashtbl.find_opt digests t
  else if t.[0] = 'P' then Some (parse_tok t)
  else Some (unhex t)

let parse_score_tok (t : string) : Num.score option =
  match t with
  | "+Inf" -> Some Num.SPosInf
  | "-Inf" -> Some Num.SNegInf
  | _ -> (try Some (Num.SFin (coqz_of_z (Z.of_string t))) with _ -> None)

let rec all_some l = match l with
  | [] -> Some []
  | None :: _ -> None
  | Some x :: r -> (match all_some r with Some r' -> Some (x :: r') | None -> None)

(* value tokens of a K line (after the 6 header fields) *)
let parse_value (toks : string list) : jval option =
  (* None = cold *)
  match toks with
  | ["cold"] -> None
  | "s" :: _ :: v :: _ -> Some (match untok v with Some b -> JKnown (Redis.SvStr (bs b)) | None -> JUnknown)
  | "l" :: _ :: _ :: _ :: els ->
      Some (match all_some (List.map untok els) with
            | Some l -> JKnown (Redis.SvList (List.map bs l)) | None -> JUnknown)
  | "h" :: _ :: kvs ->
      Some (match all_some (List.map untok kvs) with
            | Some l -> let rec pr l = match l with a :: b :: r -> (bs a, bs b) :: pr r | _ -> [] in
                        JKnown (Redis.SvHash (pr l))
            | None -> JUnknown)
  | "S" :: _ :: ms ->
      Some (match all_some (List.map untok ms) with
            | Some l -> JKnown (Redis.SvSet (List.map (fun m -> (bs m, ())) l)) | None -> JUnknown)
  | "z" :: _ :: nd :: rest ->
      let nd = int_of_string nd in
      let dict = take (2 * nd) rest in
      let rec pr l = match l with
        | m :: sc :: r -> (match untok m, parse_score_tok sc, pr r with
                           | Some m', Some s', Some r' -> Some ((bs m', s') :: r')
                           | _ -> None)
        | _ -> Some [] in
      Some (match pr dict with Some d -> JKnown (Redis.SvZSet d) | None -> JUnknown)
  | _ -> Some JUnknown

type jkey = { jname : string; jexp : Z.t; jval : jval option (* None = cold *); jraw : string list }

let parse_dump (dump : string list) : jkey list =
  List.filter_map (fun l ->
    match split_ws l with
    | "K" :: name :: exp :: _hot :: _mod :: _cnt :: _vt :: vt ->
        Some { jname = parse_tok name; jexp = Z.of_string exp; jval = parse_value vt; jraw = vt }
    | _ -> None) dump

(* nested reply from flat tokens *)
type nrep = NI of Z.t | NB of string | NBdig of string | NN | NA of nrep list | NE | NS of string | NBad
let parse_nested (toks : string list) : nrep option =
  let rec one l = match l with
    | [] -> None
    | t :: r ->
        (match t.[0] with
         | 'I' -> Some (NI (Z.of_string (String.sub t 1 (String.length t - 1))), r)
         | 'B' -> let b = String.sub t 1 (String.length t - 1) in
                  (match untok b with Some s -> Some (NB s, r) | None -> Some (NBdig b, r))
         | 'N' -> Some (NN, r)
         | 'n' -> Some (NN, r)
         | 'E' -> Some (NE, r)
         | 'S' -> Some (NS (parse_tok (String.sub t 1 (String.length t - 1))), r)
         | 'A' -> let n = int_of_string (String.sub t 1 (String.length t - 1)) in
                  let rec many k l acc = if k = 0 then Some (List.rev acc, l)
                    else (match one l with Some (v, l') -> many (k - 1) l' (v :: acc) | None -> None) in
                  (match many n r [] with Some (vs, l') -> Some (NA vs, l') | None -> None)
         | _ -> None) in
  match one toks with Some (v, []) -> Some v | _ -> None

let null_is_failure = ["INCR"; "DECR"; "INCRBY"; "DECRBY"; "INCRBYFLOAT"; "LLEN"]

let rec rep_match (name : string) (s : Redis.sreply) (r : nrep) : bool =
  match s, r with
  | Redis.SAny, _ -> true
  | Redis.SScan _, _ -> true
  | Redis.SInt z, NI i -> Z.equal (z_of_coqz z) i
  | Redis.SIntIn (lo, hi), NI i -> Z.leq (z_of_coqz lo) i && Z.leq i (z_of_coqz hi)
  | Redis.SBulk b, NB x -> sb b = x
  | Redis.SBulk b, NBdig d -> tok_out (sb b) = d
  | Redis.SNull, NN -> true
  | Redis.SErr, NE -> true
  | Redis.SErr, NN -> List.mem name null_is_failure
  | Redis.SOk, NS "OK" -> true
  | Redis.SStatus x, NS y -> sb x = y
  | Redis.SArr l, NA rs -> List.length l = List.length rs && List.for_all2 (rep_match name) l rs
  (* a pop with an explicit count of one element may answer the bare bulk *)
  | Redis.SArr [x], (NB _ | NBdig _) when List.mem name ["LPOP"; "RPOP"; "SPOP"] -> rep_match name x r
  | Redis.SBag l, NA rs ->
      List.length l = List.length rs &&
      (let canon_s = List.sort compare (List.map (function Redis.SBulk b -> tok_out (sb b) | _ -> "?") l) in
       let canon_r = List.sort compare (List.map (function NB x -> tok_out x | NBdig d -> d | _ -> "!") rs) in
       canon_s = canon_r)
  | Redis.SBag [x], (NB _ | NBdig _) when name = "SPOP" -> rep_match name x r
  | Redis.SPairs l, NA rs ->
      let rec pr l = match l with a :: b :: r -> (a, b) :: pr r | _ -> [] in
      let key = function NB x -> tok_out x | NBdig d -> d | _ -> "!" in
      List.length rs = 2 * List.length l &&
      (let cs = List.sort compare (List.map (function (Redis.SBulk a, Redis.SBulk b) -> (tok_out (sb a), tok_out (sb b)) | _ -> ("?", "?")) l) in
       let cr = List.sort compare (List.map (fun (a, b) -> (key a, key b)) (pr rs)) in cs = cr)
  | _, _ -> false

let rec show_sreply (s : Redis.sreply) : string =
  match s with
  | Redis.SInt z -> "I" ^ Z.to_string (z_of_coqz z)
  | Redis.SBulk b -> "B" ^ tok_out (sb b)
  | Redis.SNull -> "N" | Redis.SErr -> "E" | Redis.SOk -> "+OK" | Redis.SAny -> "any"
  | Redis.SStatus x -> "S" ^ sb x
  | Redis.SIntIn (a, b) -> Printf.sprintf "I[%s..%s]" (Z.to_string (z_of_coqz a)) (Z.to_string (z_of_coqz b))
  | Redis.SArr l -> "A(" ^ String.concat " " (List.map show_sreply l) ^ ")"
  | Redis.SBag l -> "Bag(" ^ String.concat " " (List.map show_sreply l) ^ ")"
  | Redis.SPairs l -> "Pairs(" ^ String.concat " " (List.map (fun (a, b) -> show_sreply a ^ "=" ^ show_sreply b) l) ^ ")"
  | Redis.SScan _ -> "scan"

(* canonical text of a specification value, comparable with the K-line value tokens *)
let sval_eq (v : Redis.sval) (j : Redis.sval) : bool =
  match v, j with
  | Redis.SvStr a, Redis.SvStr b -> a = b
  | Redis.SvList a, Redis.SvList b -> a = b
  | Redis.SvHash a, Redis.SvHash b -> a = b
  | Redis.SvSet a, Redis.SvSet b -> List.map fst a = List.map fst b
  | Redis.SvZSet a, Redis.SvZSet b -> a = b
  | _, _ -> false

(* ======================= conc mode: forced schedules on the thread model ============== *)
let conc_main file =
  let ic = open_in file in
  (try while true do
    let l = input_line ic in
    (match split_ws l with
     | "SCN" :: id :: valspec :: cmdspec :: schedspec :: _ ->
         let split_on c s = if s = "-" then [] else String.split_on_char c s in
         let vals = List.map (fun kv -> match String.split_on_char '=' kv with
                                        | [k; v] -> (nat_of_int (int_of_string k), coqz_of_z (Z.of_string v))
                                        | _ -> failwith "vals") (split_on ',' valspec) in
         let cmds = List.map (fun c -> match String.split_on_char ':' c with
                                       | ["PUSH"; k] -> Conc.Push (nat_of_int (int_of_string k))
                                       | ["POP"; k] -> Conc.Pop (nat_of_int (int_of_string k))
                                       | ["PUSHX"; k] -> Conc.PushX (nat_of_int (int_of_string k))
                                       | ["LEN"; k] -> Conc.Len (nat_of_int (int_of_string k))
                                       | ["DEL"; k] -> Conc.Del (nat_of_int (int_of_string k))
                                       | ["MOVE"; a; b] -> Conc.Move (nat_of_int (int_of_string a), nat_of_int (int_of_string b))
                                       | _ -> failwith "cmd") (split_on ',' cmdspec) in
         let sched = List.map (fun t -> nat_of_int (int_of_string t)) (split_on ',' schedspec) in
         let keys = List.sort_uniq compare
             (List.map (fun kv -> List.hd (String.split_on_char '=' kv)) (split_on ',' valspec)
              @ List.concat_map (fun c -> List.tl (String.split_on_char ':' c)) (split_on ',' cmdspec)) in
         (* two threads blocked on one record: which of them gets the lock is the Go runtime's choice *)
         let ambiguous = ref false in
         let s = List.fold_left (fun acc t ->
             let acc' = Conc.grant t acc in
             let ws = List.filter_map (fun (_, x) -> match x.Conc.t_pc with Conc.PWait (r, _) -> Some (int_of_nat r) | _ -> None) acc'.Conc.ths in
             if List.length (List.sort_uniq compare ws) < List.length ws then ambiguous := true;
             acc') (Conc.init_state vals cmds) sched in
         let j l = if l = [] then "-" else String.concat "," l in
         let vals_out = List.map (fun k -> match Conc.key_val (nat_of_int (int_of_string k)) s with
                                           | Some v -> k ^ ":" ^ Z.to_string (z_of_coqz v)
                                           | None -> k ^ ":-") keys in
         let n = List.length cmds in
         let replies = List.filter_map (fun t -> match Conc.reply_of (nat_of_int t) s with
                                                 | Some r -> Some (string_of_int t ^ ":" ^ Z.to_string (z_of_coqz r))
                                                 | None -> None) (List.init n (fun t -> t)) in
         let waiting = List.map (fun t -> string_of_int (int_of_nat t)) (Conc.waiting s) in
         let notdone = List.filter_map (fun (t, x) ->
             match int_of_nat (Conc.pc_tag x.Conc.t_pc) with
             | 0 -> Some (string_of_int (int_of_nat t) ^ ":start") | 1 -> Some (string_of_int (int_of_nat t) ^ ":hit")
             | 3 -> Some (string_of_int (int_of_nat t) ^ ":locked") | 4 -> Some (string_of_int (int_of_nat t) ^ ":miss")
             | 8 -> Some (string_of_int (int_of_nat t) ^ ":unlink") | _ -> None) s.Conc.ths in
         Printf.printf "OUT %s vals=%s replies=%s waiting=%s notdone=%s%s\n" id (j vals_out) (j replies) (j waiting) (j notdone)
           (if !ambiguous then " AMBIGUOUS" else "")
     | _ -> ())
  done with End_of_file -> ())


(* ======================= block mode: blocking pops (coq/Model/Block.v) ================= *)
let bsplit c s = if s = "-" || s = "" then [] else String.split_on_char c s
let bnat s = nat_of_int (int_of_string s)
let bz s = coqz_of_z (Z.of_string s)
let parse_blists spec =
  List.map (fun kv -> match String.split_on_char '=' kv with
                      | [k; vs] -> (bnat k, List.map bz (bsplit '.' vs))
                      | _ -> failwith "lists") (bsplit ',' spec)
let parse_bcmd c =
  match String.split_on_char ':' c with
  | ["LPUSH"; k; vs] -> Block.BPush (Block.SL, bnat k, List.map bz (bsplit '.' vs))
  | ["RPUSH"; k; vs] -> Block.BPush (Block.SR, bnat k, List.map bz (bsplit '.' vs))
  | ["LPOP"; k] -> Block.BPop (Block.SL, bnat k)
  | ["RPOP"; k] -> Block.BPop (Block.SR, bnat k)
  | ["MOVE"; a; b] -> Block.BMove (bnat a, bnat b)
  | ["BLPOP"; ks; t] -> Block.BBlock (Block.SL, List.map bnat (bsplit '.' ks), bz t)
  | ["BRPOP"; ks; t] -> Block.BBlock (Block.SR, List.map bnat (bsplit '.' ks), bz t)
  | _ -> failwith ("bcmd " ^ c)
let parse_bop o =
  let n = String.sub o 1 (String.length o - 1) in
  match o.[0] with
  | 'r' -> Block.Run (bnat n) | 'f' -> Block.Fire (bnat n) | 't' -> Block.Tick (bz n)
  | _ -> failwith ("bop " ^ o)
let show_bop o = match o with
  | Block.Run t -> "r" ^ string_of_int (int_of_nat t)
  | Block.Fire t -> "f" ^ string_of_int (int_of_nat t)
  | Block.Tick d -> "t" ^ Z.to_string (z_of_coqz d)
let zs z = Z.to_string (z_of_coqz z)
let show_breply r = match r with
  | Block.RInt n -> "I" ^ zs n
  | Block.RElem None -> "Enil" | Block.RElem (Some v) -> "E" ^ zs v
  | Block.RBlock None -> "Bnil"
  | Block.RBlock (Some (k, v)) -> "B" ^ string_of_int (int_of_nat k) ^ "/" ^ zs v
let bpoint p = match int_of_nat (Block.bpc_tag p) with
  | 0 -> "start" | 1 | 3 -> "notify" | 2 -> "move" | 4 -> "reg" | 5 -> "try" | 6 -> "select" | 7 -> "dereg" | _ -> "done"
let bj l = if l = [] then "-" else String.concat "," l
let show_boutcome id keys (s : Block.bstate) extra =
  let lists = List.filter_map (fun k ->
      match Block.lget (nat_of_int k) s.Block.lists with
      | [] -> None
      | l -> Some (string_of_int k ^ ":" ^ String.concat "." (List.map zs l))) keys in
  let replies = List.filter_map (fun (t, x) -> match x.Block.b_pc with
      | Block.BDone r -> Some (string_of_int (int_of_nat t) ^ ":" ^ show_breply r) | _ -> None) s.Block.bths in
  let regs = List.filter_map (fun k -> match Block.rget (nat_of_int k) s.Block.reg with
      | [] -> None | l -> Some (string_of_int k ^ ":" ^ string_of_int (List.length l))) keys in
  let notdone = List.filter_map (fun (t, x) -> match x.Block.b_pc with
      | Block.BDone _ -> None | p -> Some (string_of_int (int_of_nat t) ^ ":" ^ bpoint p)) s.Block.bths in
  Printf.printf "BOUT %s lists=%s replies=%s reg=%s notdone=%s%s\n" id (bj lists) (bj replies) (bj regs) (bj notdone) extra
let bkeys lists cmds =
  List.sort_uniq compare
    (List.map (fun (k, _) -> int_of_nat k) lists
     @ List.concat_map (fun c -> match c with
         | Block.BPush (_, k, _) | Block.BPop (_, k) -> [int_of_nat k]
         | Block.BMove (a, b) -> [int_of_nat a; int_of_nat b]
         | Block.BBlock (_, ks, _) -> List.map int_of_nat ks) cmds)

(* replay: every op must be enabled in the model *)
let block_run file =
  let ic = open_in file in
  (try while true do
    let l = input_line ic in
    (match split_ws l with
     | "BSCN" :: id :: lspec :: cspec :: sspec :: _ ->
         let lists = parse_blists lspec in
         let cmds = List.map parse_bcmd (bsplit ',' cspec) in
         let sched = List.map parse_bop (bsplit ',' sspec) in
         let bad = ref "" in
         let s = ref (Block.binit lists cmds) in
         List.iteri (fun i o ->
             match Block.bstep o !s with
             | Some s' -> s := s'
             | None -> if !bad = "" then bad := Printf.sprintf " BADSTEP=%d:%s" i (show_bop o)) sched;
         show_boutcome id (bkeys lists cmds) !s !bad
     | _ -> ())
  done with End_of_file -> ())

(* generation: random scenarios with a schedule of enabled ops chosen by running the model *)
let block_gen seed count =
  let st = ref (Int64.of_int (seed * 2654435761 + 12345)) in
  let rnd n =
    st := Int64.add (Int64.mul !st 6364136223846793005L) 1442695040888963407L;
    let x = Int64.to_int (Int64.shift_right_logical !st 33) in
    if n <= 0 then 0 else x mod n in
  let pick l = List.nth l (rnd (List.length l)) in
  for c = 0 to count - 1 do
    let nkeys = 1 + rnd 3 in
    let keys = List.init nkeys (fun i -> i + 1) in
    let next = ref 100 in
    let fresh () = incr next; !next in
    let lists = List.filter_map (fun k ->
        let n = pick [0; 0; 0; 1; 2] in
        if n = 0 then None else Some (k, List.init n (fun _ -> fresh ()))) keys in
    let nth = 2 + rnd 4 in
    let somekeys () =
      let n = pick [1; 1; 2; 2; 3] in
      List.init n (fun _ -> pick keys) in
    let cmds = List.init nth (fun t ->
        match (if t = 0 then pick [5; 6] else if t = 1 then pick [0; 1] else rnd 8) with
        | 0 -> Printf.sprintf "LPUSH:%d:%s" (pick keys) (String.concat "." (List.init (1 + rnd 3) (fun i -> string_of_int (1000 * (t + 1) + i))))
        | 1 -> Printf.sprintf "RPUSH:%d:%s" (pick keys) (String.concat "." (List.init (1 + rnd 3) (fun i -> string_of_int (1000 * (t + 1) + i))))
        | 2 -> Printf.sprintf "LPOP:%d" (pick keys)
        | 3 -> Printf.sprintf "RPOP:%d" (pick keys)
        | 4 -> let a = pick keys in let b = pick keys in Printf.sprintf "MOVE:%d:%d" a b   (* a = b: rotation *)
        | 5 | 7 -> Printf.sprintf "BLPOP:%s:%d" (String.concat "." (List.map string_of_int (somekeys ()))) (pick [0; 50; 50; 100])
        | _ -> Printf.sprintf "BRPOP:%s:%d" (String.concat "." (List.map string_of_int (somekeys ()))) (pick [0; 50; 50; 100])) in
    let lspec = bj (List.map (fun (k, vs) -> Printf.sprintf "%d=%s" k (String.concat "." (List.map string_of_int vs))) lists) in
    let cspec = String.concat "," cmds in
    let s = ref (Block.binit (parse_blists lspec) (List.map parse_bcmd cmds)) in
    let sched = ref [] in
    let apply o = (match Block.bstep o !s with Some s' -> s := s'; sched := o :: !sched | None -> ()) in
    let enabled_ops () =
      List.concat_map (fun t ->
          (if Block.enabled (Block.Run (nat_of_int t)) !s then [Block.Run (nat_of_int t)] else [])
          @ (if Block.enabled (Block.Fire (nat_of_int t)) !s then [Block.Fire (nat_of_int t)] else []))
        (List.init nth (fun t -> t)) in
    let steps = 10 + rnd 60 in
    (try for _ = 1 to steps do
        let ops = enabled_ops () in
        let ops = if rnd 6 = 0 then Block.Tick (coqz_of_int (pick [10; 50; 50; 100])) :: ops else ops in
        if ops = [] then raise Exit;
        apply (pick ops)
      done with Exit -> ());
    (* drain: run everything that can run; then let the clock pass and fire the timers *)
    let progress = ref true in
    let rounds = ref 0 in
    while !progress && !rounds < 200 do
      incr rounds;
      progress := false;
      (match List.filter (fun o -> match o with Block.Run _ -> true | _ -> false) (enabled_ops ()) with
       | o :: _ -> apply o; progress := true
       | [] ->
           (match List.filter (fun o -> match o with Block.Fire _ -> true | _ -> false) (enabled_ops ()) with
            | o :: _ -> apply o; progress := true
            | [] ->
                let waiting = List.exists (fun (_, x) -> match x.Block.b_cmd, x.Block.b_pc with
                    | Block.BBlock (_, _, tmo), Block.BWSelect -> z_of_coqz tmo <> Z.zero | _ -> false) !s.Block.bths in
                if waiting then begin apply (Block.Tick (coqz_of_int 100)); progress := true end))
    done;
    Printf.printf "BSCN g%d-%d %s %s %s\n" seed c lspec cspec (bj (List.rev_map show_bop !sched))
  done

let judge_main file =
  let ic = open_in file in
  let lines = ref [] in
  (try while true do lines := input_line ic :: !lines done with End_of_file -> ());
  let lines = Array.of_list (List.rev !lines) in
  let n = Array.length lines in
  let i = ref 0 in
  let case_id = ref "" and stepno = ref 0 in
  let prev_dump : jkey list ref = ref [] in
  let memory : (string, Redis.sval) Hashtbl.t = Hashtbl.create 16 in
  let judged = ref 0 and unjudged = ref 0 and diffs = ref 0 and steps = ref 0 in
  let read_dump () =
    let acc = ref [] in
    while !i < n && (let l = lines.(!i) in String.length l > 0 &&
                     (l.[0] = 'K' || l.[0] = 'M' || l.[0] = 'P' ||
                      (String.length l > 3 && (String.sub l 0 4 = "DUMP")) ||
                      (String.length l > 2 && String.sub l 0 3 = "ST "))) do
      acc := lines.(!i) :: !acc; incr i
    done; List.rev !acc in
  while !i < n do
    let l = lines.(!i) in incr i;
    let toks = split_ws l in
    (match toks with
     | "CASE" :: id :: _ -> case_id := id; stepno := 0; prev_dump := []; Hashtbl.reset memory
     | "X" :: _ ->
         incr stepno;
         let d = parse_dump (read_dump ()) in
         (* remember hot values; forget everything the reopen may have changed *)
         List.iter (fun k -> match k.jval with Some (JKnown v) -> Hashtbl.replace memory k.jname v | _ -> ()) d;
         prev_dump := d
     | "OP" :: _conn :: name :: nargs :: rest ->
         let name = name_untok name in
         incr stepno; incr steps;
         let nargs = int_of_string nargs in
         let rest = if nargs = 0 then List.tl rest else rest in
         let argtoks = take nargs rest in
         let args = List.map parse_tok argtoks in
         List.iter register_bytes args;
         let after = drop nargs rest in
         let (t0, t1, reply) = (match after with
           | a :: b :: "=>" :: r -> (Z.of_string a, Z.of_string b, r)
           | _ -> (Z.zero, Z.zero, [])) in
         let post = parse_dump (read_dump ()) in
         let post0 = post in
         (* pre-state *)
         let unknown = ref false in
         let ignored = ref [] in
         let pre : (Byte.byte list * (Redis.sval * BinNums.coq_Z)) list =
           List.filter_map (fun k ->
             let v = (match k.jval with
                      | Some (JKnown v) -> Some v
                      | Some JUnknown -> None
                      | None -> Hashtbl.find_opt memory k.jname) in
             match v with
             | Some v -> Some (bs k.jname, (v, coqz_of_z k.jexp))
             | None -> ignored := k.jname :: !ignored;
                       (if List.mem k.jname args || nargs = 0 || List.mem name ["KEYS"; "SCAN"; "DBSIZE"; "FLUSHDB"; "FLUSHALL"]
                        then unknown := true); None) !prev_dump in
         let in_multi = false in
         ignore in_multi;
         (* oracle for SPOP: the members the implementation returned *)
         let oracle = (match parse_nested reply with
                       | Some (NB x) -> [bs x]
                       | Some (NA l) -> List.filter_map (function NB x -> Some (bs x) | _ -> None) l
                       | _ -> []) in
         let cands =
           let w = Z.to_int (Z.sub t1 t0) in
           if w <= 40 then List.init (w + 1) (fun k -> Z.add t0 (Z.of_int k)) else [t0; t1] in
         let special = List.mem name ["MULTI"; "EXEC"; "DISCARD"; "WATCH"; "UNWATCH"] in
         let queued = (reply = ["S515545554544"]) in
         (* representation invariants reported by the implementation's own checker (VerifCheck) *)
         let bad j = List.exists (fun c -> String.length c >= 3 && String.sub c 0 3 = "BAD") (take 4 j.jraw) in
         (match List.filter (fun j -> bad j && not (List.exists (fun p -> p.jname = j.jname && bad p) !prev_dump)) post with
          | j :: _ ->
              incr diffs;
              Printf.printf "SPECDIFF %s step=%d %s/invariant spec=index-and-dictionary-agree impl=%s\n" !case_id !stepno name
                (let s = String.concat " " j.jraw in if String.length s > 200 then String.sub s 0 200 else s)
          | [] -> ());
         if !unknown || special || queued || reply = ["DEAD"] then incr unjudged
         else begin
           let verdicts = List.map (fun now ->
             match Redis.spec_step (coqz_of_z now) (bs name) (List.map bs args) oracle pre with
             | Redis.SUnjudged -> `Unj
             | Redis.SR (d', sr) ->
                 let rep_ok = (match parse_nested reply with
                               | Some nr -> rep_match name sr nr
                               | None -> false) in
                 (* post-state: every specification key present with equal deadline and (if hot) value;
                    every implementation key is a specification key or already expired *)
                 (* a deadline inside the clock bracket of this step cannot be judged either way *)
                 let near e = (not (Z.equal e Z.zero)) && Z.geq e (Z.pred t0) && Z.leq e (Z.add t1 (Z.of_int 2)) in
                 let d' = List.filter (fun (_, (_, e)) -> not (near (z_of_coqz e))) (Redis.purge (coqz_of_z now) d') in
                 let post = List.filter (fun j -> not (near j.jexp)) post in
                 let st_err = ref "" in
                 List.iter (fun (k, (v, e)) ->
                   match List.find_opt (fun j -> j.jname = sb k) post with
                   | None -> if !st_err = "" && not (List.exists (fun j -> j.jname = sb k) post0) then st_err := "missing key " ^ tok_bytes (sb k)
                   | Some j ->
                       if not (Z.equal j.jexp (z_of_coqz e)) then
                         (if !st_err = "" then st_err := Printf.sprintf "deadline of %s: spec %s impl %s" (tok_bytes (sb k)) (Z.to_string (z_of_coqz e)) (Z.to_string j.jexp))
                       else (match j.jval with
                             | Some (JKnown iv) -> if not (sval_eq v iv) && !st_err = "" then st_err := "value of " ^ tok_bytes (sb k) ^ " impl: " ^ String.concat " " j.jraw
                             | _ -> ())) d';
                 List.iter (fun j ->
                   if not (List.exists (fun (k, _) -> sb k = j.jname) d') && not (List.mem j.jname !ignored) then
                     if Z.equal j.jexp Z.zero || Z.gt j.jexp t1 then
                       (if !st_err = "" then st_err := "extra key " ^ tok_bytes j.jname ^ " impl: " ^ String.concat " " j.jraw)) post;
                 `Res (rep_ok, !st_err, sr)) cands in
           if List.mem `Unj (List.map (function `Unj -> `Unj | _ -> `X) verdicts) then incr unjudged
           else begin
             incr judged;
             let good = List.exists (function `Res (true, "", _) -> true | _ -> false) verdicts in
             if not good then begin
               incr diffs;
               (match List.hd verdicts with
                | `Res (rep_ok, st, sr) ->
                    let kind = if not rep_ok then "reply" else "state" in
                    Printf.printf "SPECDIFF %s step=%d %s/%s spec=%s impl=%s%s\n" !case_id !stepno name kind
                      (let s = show_sreply sr in if String.length s > 200 then String.sub s 0 200 else s)
                      (let s = String.concat " " reply in if String.length s > 200 then String.sub s 0 200 else s)
                      (if st <> "" then " state: " ^ (if String.length st > 200 then String.sub st 0 200 else st) else "")
                | `Unj -> ())
             end
           end
         end;
         List.iter (fun k -> match k.jval with Some (JKnown v) -> Hashtbl.replace memory k.jname v | _ -> ()) post;
         prev_dump := post
     | _ -> ())
  done;
  Printf.printf "JSUMMARY steps=%d judged=%d unjudged=%d specdiffs=%d\n" !steps !judged !unjudged !diffs


(* ======================= reader mode (C15) ========================================= *)
let plus1_opts = ["MATCH"; "COUNT"; "TYPE"; "EX"; "EXAT"; "PX"; "PXAT"; "LIMIT"; "WEIGHTS"; "AGGREGATE"]

let reader_main file =
  let ic = open_in file in
  let lines = ref [] in
  (try while true do lines := input_line ic :: !lines done with End_of_file -> ());
  let lines = Array.of_list (List.rev !lines) in
  let n = Array.length lines in
  let optnames = ref [] in
  let cases = ref 0 and cmds_cmp = ref 0 and diffs = ref 0 and specdiffs = ref 0 and inl = ref 0 in
  let i = ref 0 in
  while !i < n do
    let toks = split_ws lines.(!i) in
    incr i;
    (match toks with
     | "OPTNAMES" :: l :: _ -> optnames := String.split_on_char ',' l
     | ("RD" | "RW") :: id :: ncmds :: cuts :: rest4 ->
         incr cases;
         let raw = (List.hd toks = "RW") in
         let (trailing, rawstream) = (match raw, rest4 with
                                      | true, st :: _ -> ("-", parse_tok st)
                                      | false, _ :: tr :: _ -> (tr, "")
                                      | _ -> ("-", "")) in
         let ncmds = if raw then int_of_string ncmds - 1 else int_of_string ncmds in
         let gen = ref [] in
         if not raw then
         for _ = 1 to ncmds do
           (match split_ws lines.(!i) with
            | "G" :: name :: na :: rest ->
                let na = int_of_string na in
                let rest = if na = 0 then [] else take na rest in
                gen := (parse_tok name, List.map parse_tok rest) :: !gen
            | _ -> ());
           incr i
         done;
         let gen = List.rev !gen in
         let stream = if raw then rawstream else String.concat "" (List.map (fun (nm, args) ->
                        sb (Reader.enc_cmd (bs nm) (List.map bs args))) gen) ^ parse_tok trailing in
         let cuts = if cuts = "-" then [] else List.map (fun x -> nat_of_int (int_of_string x)) (String.split_on_char ',' cuts) in
         (* implementation results *)
         let impl = ref [] and ierr = ref "" and rq = ref "" and left = ref "" in
         let fin = ref false in
         while not !fin && !i < n do
           (match split_ws lines.(!i) with
            | "C" :: name :: na :: rest ->
                let na = int_of_string na in
                let rest' = if na = 0 then List.tl rest else rest in
                let args = take na rest' in
                let o = (match drop na rest' with "O" :: o :: _ -> o | _ -> "") in
                impl := (name, args, o) :: !impl; incr i
            | "ERR" :: e :: _ -> ierr := e; incr i
            | "STALE" :: k :: _ ->
                incr specdiffs;
                Printf.printf "SPECDIFF %s command %s changed after later commands were parsed\n" id k; incr i
            | "PANIC" :: e :: _ -> ierr := "PANIC:" ^ e; incr i
            | "RQ" :: r :: _ -> rq := r; incr i
            | "LEFT" :: l :: _ -> left := l; incr i; fin := true
            | _ -> fin := true)
         done;
         let impl = List.rev !impl in
         (* model run *)
         let net0 = { Reader.stream = bs stream; Reader.cuts = cuts; Reader.reqs = [] } in
         let rec go k s net acc =
           if k = 0 then (List.rev acc, "", net)
           else match Reader.coq_ReadCommand s net with
             | Reader.CCmd (nm, args, s', net') -> go (k - 1) s' net' ((nm, args) :: acc)
             | Reader.CErr Reader.EEOF -> (List.rev acc, "EOF", net)
             | Reader.CErr Reader.EArrayLen -> (List.rev acc, "invalid_request,_expected_array_length", net)
             | Reader.CErr Reader.EBulk -> (List.rev acc, "invalid_request,_expected_array", net)
             | Reader.CInline -> (List.rev acc, "INLINE", net) in
         let (mcmds, merr, _) = go (ncmds + 1) Reader.rd_init net0 [] in
         if merr = "INLINE" then begin
           incr inl;
           (* inline (telnet) syntax is outside the model, but no input may make the reader panic *)
           if String.length !ierr >= 5 && String.sub !ierr 0 5 = "PANIC" then begin
             incr specdiffs;
             Printf.printf "SPECDIFF %s the reader panicked on inline input: %s\n" id !ierr
           end
         end else begin
           let show (nm, args) = tok_out (sb nm) ^ " " ^ String.concat " " (List.map (fun a -> tok_out (sb a)) args) in
           let mopts (args : Byte.byte list list) =
             String.concat "," (List.map (fun on ->
               let w = bs on in
               if on = "NUMKEYS" then "0" else   (* readOptions has no case for it *)
               Z.to_string (z_of_coqz (if List.mem on plus1_opts then Handlers.opt1 w args else Handlers.opt w args))) !optnames) in
           let mstr = List.map (fun (nm, args) -> (tok_out (sb nm), List.map (fun a -> tok_out (sb a)) args, mopts args)) mcmds in
           cmds_cmp := !cmds_cmp + List.length impl;
           if mstr <> impl || merr <> !ierr then begin
             incr diffs;
             let rec fd a b k = match a, b with
               | x :: ra, y :: rb -> if x = y then fd ra rb (k + 1) else k
               | _, _ -> k in
             Printf.printf "DIFF %s first-differing-command=%d model-err=%s impl-err=%s model-cmds=%d impl-cmds=%d\n" id
               (fd mstr impl 0) merr !ierr (List.length mstr) (List.length impl)
           end;
           (* direct specification check: what was parsed is what was sent *)
           let want = List.map (fun (nm, args) -> (tok_out (sb (Num.upper (bs nm))), List.map tok_out args)) gen in
           let got = List.map (fun (a, b, _) -> (a, b)) impl in
           let got_n = take (List.length want) got in
           if String.length !ierr >= 5 && String.sub !ierr 0 5 = "PANIC" then begin
             incr specdiffs;
             Printf.printf "SPECDIFF %s the reader panicked: %s\n" id !ierr
           end;
           if not raw && got_n <> want then begin
             incr specdiffs;
             ignore show;
             Printf.printf "SPECDIFF %s parsed commands differ from the commands sent (sent %d, parsed %d)\n" id
               (List.length want) (List.length got)
           end
         end
     | _ -> ())
  done;
  Printf.printf "RSUMMARY cases=%d commands=%d inline=%d diffs=%d specdiffs=%d\n" !cases !cmds_cmp !inl !diffs !specdiffs

let () =
  match Array.to_list Sys.argv with
  | _ :: "codec" :: file :: _ -> codec_main file
  | _ :: "trace" :: file :: _ -> trace_main file
  | _ :: "modeltrace" :: file :: _ -> modeltrace_main file
  | _ :: "conc" :: file :: _ -> conc_main file
  | _ :: "block-run" :: file :: _ -> block_run file
  | _ :: "block-gen" :: seed :: count :: _ -> block_gen (int_of_string seed) (int_of_string count)
  | _ :: "judge" :: file :: _ -> judge_main file
  | _ :: "reader" :: file :: _ -> reader_main file
  | _ -> prerr_endline "usage: mrun <mode> <file>"; exit 2
