(* Line-oriented driver around the extracted Coq models.  Hand-written glue only:
   token parsing, conversions between OCaml ints/strings and the Coq datatypes
   (kept as extracted: positive, N, Z, nat, byte), printing. *)

(* ---- conversions -------------------------------------------------------- *)
let rec pos_of_z (z : Z.t) : BinNums.positive =
  if Z.equal z Z.one then BinNums.Coq_xH
  else if Z.is_even z then BinNums.Coq_xO (pos_of_z (Z.shift_right z 1))
  else BinNums.Coq_xI (pos_of_z (Z.shift_right z 1))
let rec z_of_pos (p : BinNums.positive) : Z.t =
  match p with
  | BinNums.Coq_xH -> Z.one
  | BinNums.Coq_xO q -> Z.shift_left (z_of_pos q) 1
  | BinNums.Coq_xI q -> Z.succ (Z.shift_left (z_of_pos q) 1)
let coqn_of_z (z : Z.t) : BinNums.coq_N =
  if Z.sign z = 0 then BinNums.N0 else BinNums.Npos (pos_of_z z)
let z_of_coqn (n : BinNums.coq_N) : Z.t =
  match n with BinNums.N0 -> Z.zero | BinNums.Npos p -> z_of_pos p
let coqz_of_z (z : Z.t) : BinNums.coq_Z =
  if Z.sign z = 0 then BinNums.Z0
  else if Z.sign z > 0 then BinNums.Zpos (pos_of_z z)
  else BinNums.Zneg (pos_of_z (Z.neg z))
let z_of_coqz (z : BinNums.coq_Z) : Z.t =
  match z with
  | BinNums.Z0 -> Z.zero
  | BinNums.Zpos p -> z_of_pos p
  | BinNums.Zneg p -> Z.neg (z_of_pos p)
let coqz_of_int i = coqz_of_z (Z.of_int i)
let int_of_coqz z = Z.to_int (z_of_coqz z)
let rec nat_of_int (i : int) : Datatypes.nat =
  if i <= 0 then Datatypes.O else Datatypes.S (nat_of_int (i - 1))

(* byte: the 256 constant constructors x00..xff of Coq.Init.Byte.byte are extracted in
   order, so constructor k is the immediate integer k.  Checked at start-up against the
   extracted Byte.to_N. *)
let byte_of_int (i : int) : Byte.byte = Obj.magic i
let int_of_byte (b : Byte.byte) : int = Obj.magic b
let () =
  for i = 0 to 255 do
    if Z.to_int (z_of_coqn (Bytes0.b2n (byte_of_int i))) <> i then
      failwith "byte representation self-test failed"
  done

let bytes_of_string (s : string) : Byte.byte list =
  let r = ref [] in
  for i = String.length s - 1 downto 0 do r := byte_of_int (Char.code s.[i]) :: !r done;
  !r
let string_of_bytes (l : Byte.byte list) : string =
  let b = Buffer.create 64 in
  List.iter (fun x -> Buffer.add_char b (Char.chr (int_of_byte x))) l;
  Buffer.contents b

(* ---- tokens (see harness/cmd/vh/tok.go) ---------------------------------- *)
let hexval c =
  match c with
  | '0'..'9' -> Char.code c - 48
  | 'a'..'f' -> Char.code c - 87
  | 'A'..'F' -> Char.code c - 55
  | _ -> failwith "bad hex"
let unhex (t : string) : string =
  let n = String.length t / 2 in
  String.init n (fun i -> Char.chr (hexval t.[2*i] * 16 + hexval t.[2*i+1]))
let hex (s : string) : string =
  let b = Buffer.create (2 * String.length s) in
  String.iter (fun c -> Buffer.add_string b (Printf.sprintf "%02x" (Char.code c))) s;
  Buffer.contents b
let pattern n a = String.init n (fun i -> Char.chr ((a + 31*i + 7*(i/256)) land 255))
let parse_tok (t : string) : string =
  if t = "-" then ""
  else if t.[0] = 'P' then Scanf.sscanf t "P%d:%d" pattern
  else unhex t
let tok_bytes s = if s = "" then "-" else hex s
let tok_out s =
  if String.length s > 256 then
    "#" ^ Digest.to_hex (Digest.string s) ^ ":" ^ string_of_int (String.length s)
  else tok_bytes s

let split_ws (l : string) : string list =
  List.filter (fun s -> s <> "") (String.split_on_char ' ' l)

(* ---- codec mode ----------------------------------------------------------- *)
let rec take n l = if n = 0 then [] else match l with [] -> [] | x :: r -> x :: take (n-1) r
let rec drop n l = if n = 0 then l else match l with [] -> [] | _ :: r -> drop (n-1) r
let rec pairs l = match l with a :: b :: r -> (a, b) :: pairs r | _ -> []

let sort_uniq_bytes (l : string list) = List.sort_uniq compare l

let codec_line (toks : string list) : (string * string) option =
  (* returns (model encoding token, impl encoding token) *)
  match toks with
  | "KEY" :: name :: exp :: enc :: _ ->
      let m = Codec.key_enc (bytes_of_string (parse_tok name)) (coqz_of_z (Z.of_string exp)) in
      Some (tok_out (string_of_bytes m), enc)
  | "STR" :: v :: enc :: _ ->
      Some (tok_out (string_of_bytes (Codec.str_enc (bytes_of_string (parse_tok v)))), enc)
  | "LIST" :: n :: rest ->
      let n = int_of_string n in
      let rest = if n = 0 then List.tl rest else rest in
      let vs = List.map (fun t -> bytes_of_string (parse_tok t)) (take n rest) in
      let enc = List.hd (drop n rest) in
      Some (tok_out (string_of_bytes (Codec.list_enc vs)), enc)
  | "SET" :: n :: rest ->
      let n = int_of_string n in
      let rest = if n = 0 then List.tl rest else rest in
      let vs = sort_uniq_bytes (List.map parse_tok (take n rest)) in
      let enc = List.hd (drop n rest) in
      Some (tok_out (string_of_bytes (Codec.set_enc (List.map bytes_of_string vs))), enc)
  | "HASH" :: n :: rest ->
      let n = int_of_string n in
      let rest = if n = 0 then List.tl rest else rest in
      let kvs = pairs (List.map parse_tok (take (2*n) rest)) in
      (* later writes win; btree order = bytewise order of field names *)
      let tbl = Hashtbl.create 16 in
      List.iter (fun (k, v) -> Hashtbl.replace tbl k v) kvs;
      let ks = sort_uniq_bytes (List.map fst kvs) in
      let kvs = List.map (fun k -> (bytes_of_string k, bytes_of_string (Hashtbl.find tbl k))) ks in
      let enc = List.hd (drop (2*n) rest) in
      Some (tok_out (string_of_bytes (Codec.hash_enc kvs)), enc)
  | "ZSET" :: n :: rest ->
      let n = int_of_string n in
      let rest = if n = 0 then List.tl rest else rest in
      let its = pairs (take (2*n) rest) in
      let tbl = Hashtbl.create 16 in
      List.iter (fun (b, m) -> Hashtbl.replace tbl (parse_tok m) b) its;
      let ms = sort_uniq_bytes (List.map (fun (_, m) -> parse_tok m) its) in
      let its = List.map (fun m ->
        (coqn_of_z (Z.of_string_base 16 (Hashtbl.find tbl m)), bytes_of_string m)) ms in
      let enc = List.hd (drop (2*n) rest) in
      Some (tok_out (string_of_bytes (Codec.zset_enc its)), enc)
  | "ENT" :: typ :: v :: enc :: _ ->
      let m = Codec.entry_enc (byte_of_int (int_of_string typ)) (bytes_of_string (parse_tok v)) in
      Some (tok_out (string_of_bytes m), enc)
  | _ -> None

let codec_main file =
  let ic = open_in file in
  let n = ref 0 and diffs = ref 0 and lineno = ref 0 in
  (try
    while true do
      let l = input_line ic in
      incr lineno;
      match codec_line (split_ws l) with
      | Some (m, i) ->
          incr n;
          if m <> i then begin
            incr diffs;
            Printf.printf "DIFF %d model=%s impl=%s\n" !lineno m i
          end
      | None -> Printf.printf "SKIP %d\n" !lineno
    done
  with End_of_file -> ());
  Printf.printf "SUMMARY cases=%d diffs=%d\n" !n !diffs

let () =
  match Array.to_list Sys.argv with
  | _ :: "codec" :: file :: _ -> codec_main file
  | _ -> prerr_endline "usage: mrun <mode> <file>"; exit 2
